#!/bin/bash
# Builds the Kani dependency cache (offline, from files on disk). Idempotent.
set -e
cd "$(dirname "$0")"
export CARGO_NET_OFFLINE=true
python3 - <<'PY'
import os, shutil, sys
sys.path.insert(0, "lib")
import vlib
shutil.rmtree(vlib.CACHE, ignore_errors=True)
st = vlib.Stage("setup", [("op", "c10_op.rs")]).build()
meta = st.codegen()
if meta is None:
    print(st.codegen_log[-3000:])
    print("setup: kani codegen failed (checks will still build from scratch)")
    st.cleanup()
    sys.exit(0)
os.makedirs(vlib.CACHE, exist_ok=True)
shutil.move(st.target, os.path.join(vlib.CACHE, "target"))
st.cleanup()
print("setup: dependency cache ready in", vlib.CACHE)
PY
