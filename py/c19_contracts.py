"""C19: CrossHair (z3) contracts over the REAL wrapper source py/jsonlogic_rs/__init__.py.

The native extension submodule `.jsonlogic` is replaced by a stub with the py_fn! signature
`apply(value: str, data: str) -> str` (type-checked, records its arguments, returns a JSON text that
encodes them; raises ValueError for the designated "error" rule text).  Everything else is the wrapper's own code,
loaded from the working tree named by $VERIF_REPO (default /repo)."""
import json
import os
import sys
import types
from typing import Dict, List, Optional, Union

REPO = os.environ.get("VERIF_REPO", "/repo")
SRC = os.path.join(REPO, "py", "jsonlogic_rs", "__init__.py")

ERR_TEXT = '{"error": 1}'


def _native_apply(value, data):
    if not isinstance(value, str) or not isinstance(data, str):
        raise TypeError("native apply(value: str, data: str)")
    if value == ERR_TEXT:
        raise ValueError("library error")
    return json.dumps({"v": value, "d": data})


def _load():
    pkg = types.ModuleType("jsonlogic_rs")
    pkg.__path__ = [os.path.dirname(SRC)]
    nat = types.ModuleType("jsonlogic_rs.jsonlogic")
    nat.apply = _native_apply
    sys.modules["jsonlogic_rs"] = pkg
    sys.modules["jsonlogic_rs.jsonlogic"] = nat
    pkg.__dict__["__name__"] = "jsonlogic_rs"
    pkg.__dict__["__package__"] = "jsonlogic_rs"
    exec(compile(open(SRC).read(), SRC, "exec"), pkg.__dict__)
    return pkg


PKG = _load()

Json = Union[None, bool, int, str, List[int], Dict[str, int]]


def _tag(s):
    return ("decoded", s)


def serialized_contract(value: str, data: Optional[str], pass_data: bool, use_deser: bool) -> bool:
    """
    apply_serialized(value[, data[, deserializer]]) == (deserializer or json.loads)(native(value, data or "null"))
    post: __return__
    """
    if value == ERR_TEXT:
        return True
    deser = _tag if use_deser else None
    if use_deser:
        got = PKG.apply_serialized(value, data if pass_data else None, deser)
    elif pass_data:
        got = PKG.apply_serialized(value, data)
    else:
        got = PKG.apply_serialized(value)
        data = None
    if not pass_data:
        data = None
    raw = _native_apply(value, data if data is not None else "null")
    exp = _tag(raw) if use_deser else json.loads(raw)
    return got == exp


def apply_contract(rule: Json, data: Json, pass_data: bool, use_ser: bool, use_deser: bool) -> bool:
    """
    apply(rule[, data[, serializer[, deserializer]]]) == dec(native(enc(rule), enc(data))), omitted data meaning None
    post: __return__
    """
    ser = (lambda o: json.dumps(["S", o])) if use_ser else None
    deser = _tag if use_deser else None
    if not pass_data:
        data = None
        if use_ser or use_deser:
            got = PKG.apply(rule, serializer=ser, deserializer=deser)
        else:
            got = PKG.apply(rule)
    else:
        got = PKG.apply(rule, data, ser, deser)
    enc = ser if use_ser else json.dumps
    if enc(rule) == ERR_TEXT:
        return True
    raw = _native_apply(enc(rule), enc(data))
    exp = _tag(raw) if use_deser else json.loads(raw)
    return got == exp


def error_contract(data: Optional[str], which: int) -> bool:
    """
    a library error (ValueError from the native module) surfaces as ValueError from both entry points
    post: __return__
    """
    try:
        if which % 2 == 0:
            PKG.apply_serialized(ERR_TEXT, data)
        else:
            PKG.apply({"error": 1}, None)
    except ValueError:
        return True
    except Exception:
        return False
    return False


CONTRACTS = {"serialized_contract": serialized_contract, "apply_contract": apply_contract,
             "error_contract": error_contract}

if __name__ == "__main__":
    # replay: python c19_contracts.py <contract> <json list of args>
    fn = CONTRACTS[sys.argv[1]]
    args = json.loads(sys.argv[2])
    try:
        ok = fn(*args)
    except Exception as e:  # an exception escaping the wrapper is a violation of the contract too
        print("REPLAY raised %s: %s" % (type(e).__name__, e))
        sys.exit(1)
    print("REPLAY", "holds" if ok else "VIOLATED")
    sys.exit(0 if ok else 1)
