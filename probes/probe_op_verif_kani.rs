#![allow(unused)]
use serde_json::{json, Map, Number, Value};
use super::*;
use std::cmp::PartialEq as PEq;
use crate::js_op;
use crate::value::to_number_value;

pub fn stub_format(_args: std::fmt::Arguments<'_>) -> String { String::new() }

fn any_num() -> Number {
    let k: u8 = kani::any();
    if k == 0 { Number::from(kani::any::<i64>()) }
    else if k == 1 { Number::from(kani::any::<u64>()) }
    else { let f: f64 = kani::any(); kani::assume(f.is_finite()); Number::from_f64(f).unwrap() }
}

fn any_string(maxc: usize) -> String {
    let n: usize = kani::any();
    kani::assume(n <= maxc);
    let mut s = String::new();
    let mut i = 0;
    while i < maxc {
        if i < n { let c: char = kani::any(); s.push(c); }
        i += 1;
    }
    s
}

// (1) substr direct: symbolic string <=3 chars, symbolic idx, no limit; compare to char-model
#[kani::proof]
#[kani::stub(std::fmt::format, stub_format)]
#[kani::unwind(14)]
fn q_substr2() {
    let s = any_string(3);
    let nchars = s.chars().count() as i64;
    let idx: i64 = kani::any();
    let vs = Value::String(s);
    let vi = Value::Number(Number::from(idx));
    let items = vec![&vs, &vi];
    let r = string::substr(&items);
    let start = if idx >= 0 { if idx > nchars { nchars } else { idx } } else { if idx < -nchars { 0 } else { nchars + idx } };
    match &r {
        Ok(Value::String(out)) => {
            assert!(out.len() >= (nchars - start) as usize);
            assert!(out.len() <= 4 * (nchars - start) as usize);
        }
        _ => assert!(false),
    }
    std::mem::forget(r); std::mem::forget(vs);
}

// (2) var with integer index on array data
#[kani::proof]
#[kani::stub(std::fmt::format, stub_format)]
#[kani::unwind(6)]
fn q_var_idx() {
    let idx: i64 = kani::any();
    let a: i64 = kani::any(); let b: i64 = kani::any(); let c: i64 = kani::any();
    let data = Value::Array(vec![Value::from(a), Value::from(b), Value::from(c)]);
    let key = Value::from(idx);
    let args = vec![&key];
    let r = data::var(&data, &args);
    let exp: Option<i64> = match idx { 0 | -3 => Some(a), 1 | -2 => Some(b), 2 | -1 => Some(c), _ => None };
    match (&r, exp) {
        (Ok(Value::Number(n)), Some(e)) => assert!(n.as_i64() == Some(e)),
        (Ok(Value::Null), None) => {},
        _ => assert!(false),
    }
    std::mem::forget(r); std::mem::forget(data);
}

// (3) NumParams symbolic len for every table entry
#[kani::proof]
fn q_numparams() {
    let len: usize = kani::any();
    let op = OPERATOR_MAP.get("substr").unwrap();
    assert!(op.num_params.is_valid_len(&len) == (len == 2 || len == 3));
    let op = LAZY_OPERATOR_MAP.get("reduce").unwrap();
    assert!(op.num_params.is_valid_len(&len) == (len == 3));
    let op = DATA_OPERATOR_MAP.get("var").unwrap();
    assert!(op.num_params.is_valid_len(&len) == (len <= 2));
    assert!(OPERATOR_MAP.get("Var").is_none());
}

// (4) abstract_eq number vs concrete string
#[kani::proof]
#[kani::unwind(12)]
fn q_eq_num_str_concrete() {
    let a = any_num();
    let fa = a.as_f64().unwrap();
    let va = Value::Number(a);
    let vs = Value::String(String::from("1.5"));
    assert!(js_op::abstract_eq(&va, &vs) == (fa == 1.5));
    std::mem::forget(va); std::mem::forget(vs);
}

// (5) str_to_number on symbolic 2-char ASCII string
#[kani::proof]
#[kani::unwind(12)]
fn q_str_to_number_sym2() {
    let b0: u8 = kani::any(); let b1: u8 = kani::any();
    kani::assume(b0 < 128 && b1 < 128);
    let bytes = [b0, b1];
    let s = std::str::from_utf8(&bytes).unwrap();
    let r = js_op::str_to_number(s);
    if b0 >= b'0' && b0 <= b'9' && b1 >= b'0' && b1 <= b'9' {
        assert!(r == Some(((b0 - b'0') * 10 + (b1 - b'0')) as f64));
    }
    if b0 == b' ' { assert!(r.is_none()); }
}

// (6) to_string of symbolic i64
#[kani::proof]
#[kani::unwind(24)]
fn q_to_string_i64() {
    let x: i64 = kani::any();
    kani::assume(x >= -99 && x <= 999);
    let v = Value::from(x);
    let s = js_op::to_string(&v);
    assert!(s.len() >= 1 && s.len() <= 3);
    if x >= 0 && x < 10 { assert!(s.as_bytes()[0] == b'0' + (x as u8)); }
}

// (7) if_ with literal operands, n symbolic <= 5
#[kani::proof]
#[kani::stub(std::fmt::format, stub_format)]
#[kani::unwind(8)]
fn q_if_literals() {
    let n: usize = kani::any();
    kani::assume(n <= 5);
    let vals: [Value; 5] = [Value::Bool(kani::any()), Value::from(kani::any::<i64>()), Value::Bool(kani::any()), Value::from(kani::any::<i64>()), Value::from(kani::any::<i64>())];
    let mut args: Vec<&Value> = Vec::new();
    let mut i = 0;
    while i < 5 { if i < n { args.push(&vals[i]); } i += 1; }
    let data = Value::Null;
    let r = logic::if_(&data, &args);
    assert!(r.is_ok());
    if n == 3 {
        let c = match &vals[0] { Value::Bool(b) => *b, _ => false };
        let exp = if c { &vals[1] } else { &vals[2] };
        assert!(r.as_ref().unwrap() == exp);
    }
    std::mem::forget(r);
}

// (8) one-key map get alone
#[kani::proof]
#[kani::unwind(6)]
fn q_map1() {
    let x: i64 = kani::any();
    let mut m = Map::new();
    m.insert(String::from("ab"), Value::from(x));
    assert!(m.len() == 1);
    let g = m.get("ab");
    assert!(g.is_some());
    assert!(m.get("ac").is_none());
    std::mem::forget(m);
}

// (9) merge: symbolic inner lengths
#[kani::proof]
#[kani::unwind(6)]
fn q_merge() {
    let n0: usize = kani::any(); let n1: usize = kani::any();
    kani::assume(n0 <= 2 && n1 <= 2);
    let mut a0 = Vec::new(); let mut a1 = Vec::new();
    let mut i = 0;
    while i < 2 { if i < n0 { a0.push(Value::from(kani::any::<i64>())); } if i < n1 { a1.push(Value::from(kani::any::<i64>())); } i += 1; }
    let v0 = Value::Array(a0); let v1 = Value::Array(a1); let v2 = Value::Bool(kani::any());
    let items = vec![&v0, &v2, &v1];
    let r = array::merge(&items);
    match &r { Ok(Value::Array(out)) => assert!(out.len() == n0 + n1 + 1), _ => assert!(false) }
    std::mem::forget(r); std::mem::forget(v0); std::mem::forget(v1);
}

// (10) phf lookup with symbolic key <= 3 bytes
#[kani::proof]
#[kani::unwind(5)]
fn q_phf_sym() {
    let b: [u8; 3] = kani::any();
    let n: usize = kani::any();
    kani::assume(n <= 3);
    kani::assume(b[0] < 128 && b[1] < 128 && b[2] < 128);
    let s = std::str::from_utf8(&b[..n]).unwrap();
    let found = OPERATOR_MAP.get(s).is_some();
    let spec = matches!(s, "==" | "!=" | "===" | "!==" | "!" | "!!" | "<" | "<=" | ">" | ">=" | "+" | "-" | "*" | "/" | "%" | "max" | "min" | "in" | "cat" | "log");
    assert!(found == spec);
}

// (11) f64 remainder
#[kani::proof]
fn q_fmod() {
    let a: f64 = kani::any(); let b: f64 = kani::any();
    kani::assume(a.is_finite() && b.is_finite() && b != 0.0);
    let r = a % b;
    assert!(r.abs() < b.abs());
}

// (12) truthy on symbolic-kind non-object value
#[kani::proof]
#[kani::unwind(6)]
fn q_truthy() {
    let k: u8 = kani::any();
    let x: i64 = kani::any();
    let v = if k == 0 { Value::Null } else if k == 1 { Value::Bool(x > 0) } else if k == 2 { Value::from(x) } else if k == 3 { Value::String(String::new()) } else { Value::Array(vec![]) };
    let t = logic::truthy(&v);
    assert!(t == ((k == 1 && x > 0) || (k == 2 && x != 0)));
    std::mem::forget(v);
}

fn class_char(k: u8) -> char { match k { 0 => 'a', 1 => '\u{e9}', 2 => '\u{20ac}', _ => '\u{1F600}' } }

fn class_string3() -> (String, usize) {
    let n: usize = kani::any();
    kani::assume(n <= 3);
    let k0: u8 = kani::any(); let k1: u8 = kani::any(); let k2: u8 = kani::any();
    kani::assume(k0 < 4 && k1 < 4 && k2 < 4);
    let mut s = String::with_capacity(12);
    if n > 0 { s.push(class_char(k0)); }
    if n > 1 { s.push(class_char(k1)); }
    if n > 2 { s.push(class_char(k2)); }
    (s, n)
}

#[kani::proof]
#[kani::stub(std::fmt::format, stub_format)]
#[kani::unwind(5)]
fn q_substr3() {
    let (s, n) = class_string3();
    let nchars = n as i64;
    let idx: i64 = kani::any();
    let vs = Value::String(s);
    let vi = Value::Number(Number::from(idx));
    let items = vec![&vs, &vi];
    let r = string::substr(&items);
    let start = if idx >= 0 { if idx > nchars { nchars } else { idx } } else { if idx < -nchars { 0 } else { nchars + idx } };
    match &r {
        Ok(Value::String(out)) => {
            assert!(out.len() >= (nchars - start) as usize);
            assert!(out.len() <= 4 * (nchars - start) as usize);
        }
        _ => assert!(false),
    }
    std::mem::forget(r); std::mem::forget(vs);
}


// a. lte on (Null, Number)
#[kani::proof]
fn r_lte_null_num() {
    let n = any_num(); let f = n.as_f64().unwrap();
    let a = Value::Null; let b = Value::Number(n);
    assert!(js_op::abstract_lte(&a, &b) == (0.0 <= f));
    assert!(js_op::abstract_gte(&b, &a) == js_op::abstract_lte(&a, &b));
    assert!(js_op::abstract_lt(&a, &b) == js_op::abstract_gt(&b, &a));
    std::mem::forget(b);
}

// b. eq (Number, String) with str_to_number stubbed by nondeterministic oracle
static mut S2N_RET: Option<f64> = None;
fn stub_s2n<S: AsRef<str>>(_s: S) -> Option<f64> { unsafe { S2N_RET } }
#[kani::proof]
#[kani::stub(crate::js_op::str_to_number, stub_s2n)]
fn r_eq_num_str_stub() {
    let n = any_num(); let f = n.as_f64().unwrap();
    let has: bool = kani::any(); let sv: f64 = kani::any();
    kani::assume(!sv.is_nan());
    unsafe { S2N_RET = if has { Some(sv) } else { None }; }
    let a = Value::Number(n); let b = Value::String(String::from("x"));
    let e = js_op::abstract_eq(&a, &b);
    assert!(e == (has && f == sv));
    assert!(js_op::abstract_eq(&b, &a) == e);
    assert!(js_op::abstract_ne(&a, &b) == !e);
    std::mem::forget(a); std::mem::forget(b);
}

// c. missing_some on array data with integer keys, duplicates allowed
#[kani::proof]
#[kani::stub(std::fmt::format, stub_format)]
#[kani::unwind(5)]
fn r_missing_some() {
    let data = Value::Array(vec![Value::Null, Value::Bool(true)]); // indices 0,1 present; 2,3 absent
    let k0: i64 = kani::any(); let k1: i64 = kani::any(); let k2: i64 = kani::any();
    kani::assume(k0 >= 0 && k0 < 4 && k1 >= 0 && k1 < 4 && k2 >= 0 && k2 < 4);
    let t: u64 = kani::any(); kani::assume(t <= 4);
    let keys = Value::Array(vec![Value::from(k0), Value::from(k1), Value::from(k2)]);
    let thr = Value::from(t);
    let args = vec![&thr, &keys];
    let r = data::missing_some(&data, &args);
    let present = (k0 < 2) as u64 + (k1 < 2) as u64 + (k2 < 2) as u64;
    match &r {
        Ok(Value::Array(out)) => {
            if present >= t { assert!(out.len() == 0); } else { assert!(out.len() >= 1); }
        }
        _ => assert!(false),
    }
    std::mem::forget(r); std::mem::forget(data); std::mem::forget(keys);
}

// d. in_: numerically equal numbers with different repr
#[kani::proof]
#[kani::stub(std::fmt::format, stub_format)]
#[kani::unwind(4)]
fn r_in_num() {
    let x: i64 = kani::any();
    kani::assume(x > -1000 && x < 1000);
    let needle = Value::Number(Number::from_f64(x as f64).unwrap());
    let hay = Value::Array(vec![Value::from(x)]);
    let items = vec![&needle, &hay];
    let r = array::in_(&items);
    match &r { Ok(Value::Bool(b)) => assert!(*b), _ => assert!(false) }
    std::mem::forget(r); std::mem::forget(hay);
}

// f. var default: already-evaluated default that looks like an operation must stay inert
#[kani::proof]
#[kani::stub(std::fmt::format, stub_format)]
#[kani::unwind(4)]
fn r_var_default_inert() {
    let secret: i64 = kani::any();
    let data = Value::Array(vec![Value::from(secret)]);
    let key = Value::from(5i64); // absent
    let mut m = Map::new();
    m.insert(String::from("var"), Value::from(0i64));
    let dflt = Value::Object(m);
    let args = vec![&key, &dflt];
    let r = data::var(&data, &args);
    match &r { Ok(Value::Object(_)) => {}, _ => assert!(false) }
    std::mem::forget(r); std::mem::forget(data); std::mem::forget(dflt);
}

// g. abstract_plus public helper never panics
#[kani::proof]
fn r_abstract_plus_total() {
    let a = Value::Number(any_num()); let b = Value::Number(any_num());
    let r = js_op::abstract_plus(&a, &b);
    std::mem::forget(r);
}

// ---- bounded library models
fn scalar_clone(v: &Value) -> Value {
    match v {
        Value::Null => Value::Null,
        Value::Bool(b) => Value::Bool(*b),
        Value::Number(n) => Value::Number(n.clone()),
        Value::String(s) => Value::String(s.clone()),
        _ => { assert!(false, "value deeper than modelled bound"); Value::Null }
    }
}
fn value_clone_model(v: &Value) -> Value {
    match v {
        Value::Array(a) => {
            let mut out = Vec::with_capacity(a.len());
            let mut i = 0;
            while i < a.len() { out.push(scalar_clone(&a[i])); i += 1; }
            Value::Array(out)
        }
        Value::Object(_) => { assert!(false, "objects outside modelled bound"); Value::Null }
        _ => scalar_clone(v),
    }
}
fn scalar_eq(a: &Value, b: &Value) -> bool {
    match (a, b) {
        (Value::Null, Value::Null) => true,
        (Value::Bool(x), Value::Bool(y)) => x == y,
        (Value::Number(x), Value::Number(y)) => x == y,
        (Value::String(x), Value::String(y)) => x == y,
        (Value::Array(_), _) | (_, Value::Array(_)) | (Value::Object(_), _) | (_, Value::Object(_)) => { assert!(false, "deep eq outside bound"); false }
        _ => false,
    }
}
fn btree_drop_model(_m: &mut std::collections::BTreeMap<String, Value>) {}
fn value_eq_model(a: &Value, b: &Value) -> bool { scalar_eq(a, b) }

#[kani::proof]
#[kani::stub(std::fmt::format, stub_format)]
#[kani::stub(<serde_json::Value as std::clone::Clone>::clone, value_clone_model)]
#[kani::unwind(5)]
fn s_missing_some() {
    let data = Value::Array(vec![Value::Null, Value::Bool(true)]); // indices 0,1 present; 2,3 absent
    let k0: i64 = kani::any(); let k1: i64 = kani::any(); let k2: i64 = kani::any();
    kani::assume(k0 >= 0 && k0 < 4 && k1 >= 0 && k1 < 4 && k2 >= 0 && k2 < 4);
    let t: u64 = kani::any(); kani::assume(t <= 4);
    let keys = Value::Array(vec![Value::from(k0), Value::from(k1), Value::from(k2)]);
    let thr = Value::from(t);
    let args = vec![&thr, &keys];
    let r = data::missing_some(&data, &args);
    let present = (k0 < 2) as u64 + (k1 < 2) as u64 + (k2 < 2) as u64;
    match &r {
        Ok(Value::Array(out)) => {
            if present >= t { assert!(out.len() == 0); } else { assert!(out.len() >= 1); }
        }
        _ => assert!(false),
    }
    std::mem::forget(r); std::mem::forget(data); std::mem::forget(keys);
}

fn to_string_opaque(_v: &Value) -> String { let mut s = String::new(); if kani::any() { s.push('x'); } s }
fn s2n_unreachable<S: AsRef<str>>(_s: S) -> Option<f64> { assert!(false, "str_to_number must not be reached for scalar non-string pair"); None }
fn num_f(n: &Number) -> f64 { n.as_f64().unwrap() }

#[kani::proof]
#[kani::stub(crate::js_op::str_to_number, s2n_unreachable)]
#[kani::unwind(3)]
#[kani::stub(crate::js_op::to_string, to_string_opaque)]
fn t_rel_bool_num() {
    let b: bool = kani::any(); let n = any_num(); let f = num_f(&n);
    let bf = if b { 1.0 } else { 0.0 };
    let va = Value::Bool(b); let vb = Value::Number(n);
    assert!(js_op::abstract_lt(&va, &vb) == (bf < f));
    assert!(js_op::abstract_gt(&va, &vb) == (bf > f));
    assert!(js_op::abstract_lte(&va, &vb) == (bf <= f));
    assert!(js_op::abstract_gte(&va, &vb) == (bf >= f));
    assert!(js_op::abstract_gt(&vb, &va) == js_op::abstract_lt(&va, &vb));
    std::mem::forget(vb);
}

#[kani::proof]
#[kani::stub(std::fmt::format, stub_format)]
#[kani::stub(crate::js_op::str_to_number, s2n_unreachable)]
#[kani::unwind(3)]
#[kani::stub(crate::js_op::to_string, to_string_opaque)]
fn t_minus_exact() {
    let a = any_num(); let b = any_num(); let fa = num_f(&a); let fb = num_f(&b);
    let va = Value::Number(a); let vb = Value::Number(b);
    let items = vec![&va, &vb];
    let r = numeric::minus(&items);
    let exp = fa - fb;
    match &r {
        Ok(Value::Number(n)) => { assert!(exp.is_finite()); assert!(num_f(n) == exp); }
        Ok(_) => assert!(false),
        Err(_) => assert!(!exp.is_finite()),
    }
    std::mem::forget(r); std::mem::forget(va); std::mem::forget(vb);
}

#[kani::proof]
#[kani::stub(std::fmt::format, stub_format)]
#[kani::stub(crate::js_op::to_string, to_string_opaque)]
#[kani::unwind(5)]
fn t_add3() {
    let a = any_num(); let b = any_num(); let c = any_num();
    let (fa, fb, fc) = (num_f(&a), num_f(&b), num_f(&c));
    let (va, vb, vc) = (Value::Number(a), Value::Number(b), Value::Number(c));
    let items = vec![&va, &vb, &vc];
    let r = js_op::parse_float_add(&items);
    match &r { Ok(x) => assert!(*x == ((0.0 + fa) + fb) + fc || x.is_nan()), Err(_) => assert!(false) }
    std::mem::forget(r);
}

#[kani::proof]
#[kani::stub(std::fmt::format, stub_format)]
#[kani::unwind(4)]
fn u_raw_literal() {
    let n: usize = kani::any(); kani::assume(n <= 2);
    let mut a = Vec::with_capacity(2);
    if n > 0 { a.push(Value::from(kani::any::<i64>())); }
    if n > 1 { a.push(Value::Bool(kani::any())); }
    let v = Value::Array(a);
    let data = Value::Bool(kani::any());
    let p = Parsed::from_value(&v);
    match &p {
        Ok(Parsed::Raw(_)) => {}
        _ => assert!(false),
    }
    let pp = p.unwrap();
    let e = pp.evaluate(&data);
    match &e {
        Ok(Evaluated::Raw(r)) => assert!(std::ptr::eq(*r, &v)),
        _ => assert!(false),
    }
    std::mem::forget(e); std::mem::forget(pp); std::mem::forget(v);
}

#[kani::proof]
#[kani::stub(std::fmt::format, stub_format)]
#[kani::unwind(5)]
fn u_if3() {
    let c: bool = kani::any(); let x: i64 = kani::any(); let y: i64 = kani::any();
    let v0 = Value::Bool(c); let v1 = Value::from(x); let v2 = Value::from(y);
    let args: Vec<&Value> = vec![&v0, &v1, &v2];
    let data = Value::Null;
    let r = logic::if_(&data, &args);
    match &r {
        Ok(Value::Number(n)) => assert!(n.as_i64() == Some(if c { x } else { y })),
        _ => assert!(false),
    }
    std::mem::forget(r);
}

#[kani::proof]
#[kani::unwind(4)]
fn u_bang() {
    let n = any_num(); let f = num_f(&n);
    let v = Value::Number(n);
    let items = vec![&v];
    let r1 = OPERATOR_MAP.get("!").unwrap().execute(&items);
    let r2 = OPERATOR_MAP.get("!!").unwrap().execute(&items);
    match (&r1, &r2) {
        (Ok(Value::Bool(a)), Ok(Value::Bool(b))) => { assert!(*b == (f != 0.0)); assert!(*a == !*b); }
        _ => assert!(false),
    }
    std::mem::forget(r1); std::mem::forget(r2); std::mem::forget(v);
}

fn alpha(k: u8) -> char { match k { 0 => 'a', 1 => '.', 2 => '\\', _ => '1' } }
#[kani::proof]
#[kani::unwind(5)]
fn u_split() {
    let n: usize = kani::any(); kani::assume(n <= 3);
    let k: [u8; 3] = kani::any(); kani::assume(k[0] < 4 && k[1] < 4 && k[2] < 4);
    let mut s = String::with_capacity(3);
    if n > 0 { s.push(alpha(k[0])); } if n > 1 { s.push(alpha(k[1])); } if n > 2 { s.push(alpha(k[2])); }
    let parts = data::split_with_escape(&s, '.');
    // number of parts <= number of unescaped dots + 1
    assert!(parts.len() <= n + 1);
    if n == 3 && k[0] == 0 && k[1] == 1 && k[2] == 0 { assert!(parts.len() == 2); }
    if n == 3 && k[0] == 0 && k[1] == 2 && k[2] == 1 { assert!(parts.len() == 1 && parts[0].len() == 2); }
    std::mem::forget(parts); std::mem::forget(s);
}

#[kani::proof]
#[kani::stub(std::fmt::format, stub_format)]
#[kani::unwind(5)]
fn u_var_string() {
    let (s, n) = class_string3();
    let idx: i64 = kani::any();
    let data = Value::String(s);
    let key = Value::from(idx);
    let args = vec![&key];
    let r = data::var(&data, &args);
    let inr = (idx >= 0 && (idx as i128) < n as i128) || (idx < 0 && (-(idx as i128)) <= n as i128);
    match &r {
        Ok(Value::String(c)) => assert!(inr && c.len() >= 1 && c.len() <= 4),
        Ok(Value::Null) => assert!(!inr),
        _ => assert!(false),
    }
    std::mem::forget(r); std::mem::forget(data);
}

#[kani::proof]
#[kani::stub(std::fmt::format, stub_format)]
#[kani::unwind(4)]
fn w_all_literal() {
    let x: i64 = kani::any(); let b: bool = kani::any();
    let coll = Value::Array(vec![Value::from(x), Value::Bool(b)]);
    let p: i64 = kani::any();
    let pred = Value::from(p);
    let args: Vec<&Value> = vec![&coll, &pred];
    let data = Value::Null;
    let r = array::all(&data, &args);
    let s = array::some(&data, &args);
    let n = array::none(&data, &args);
    match (&r, &s, &n) {
        (Ok(Value::Bool(a)), Ok(Value::Bool(so)), Ok(Value::Bool(no))) => { assert!(*a == (p != 0)); assert!(*so == (p != 0)); assert!(*no == !*so); }
        _ => assert!(false),
    }
    std::mem::forget(r); std::mem::forget(s); std::mem::forget(n); std::mem::forget(coll);
}

#[kani::proof]
#[kani::unwind(8)]
fn x_s2n_static() {
    let n = any_num(); let f = num_f(&n);
    let r = js_op::str_to_number("1.5");
    assert!(r == Some(1.5));
    let r2 = js_op::str_to_number(" 1");
    kani::cover!(r2.is_none());
    let r3 = js_op::str_to_number("inf");
    kani::cover!(r3.is_some());
}

#[kani::proof]
#[kani::stub(crate::js_op::str_to_number, s2n_unreachable)]
#[kani::unwind(8)]
fn x_lt_str_str() {
    let a: char = kani::any(); let b: char = kani::any();
    let mut sa = String::with_capacity(4); sa.push(a);
    let mut sb = String::with_capacity(4); sb.push(b);
    let va = Value::String(sa); let vb = Value::String(sb);
    assert!(js_op::abstract_lt(&va, &vb) == (a < b));
    assert!(js_op::abstract_gt(&vb, &va) == (a < b));
    std::mem::forget(va); std::mem::forget(vb);
}
