#!/bin/bash
# usage: pk2.sh timeout h1 h2 ...   (parallel, each own target dir, no memory-safety checks)
t=$1; shift
cd /root/probe/crate
mkdir -p /root/probe/td
for h in "$@"; do
 ( [ -d /root/probe/td/$h ] || cp -r /root/probe/crate/target /root/probe/td/$h
   ( ulimit -v 20000000; /usr/bin/time -f "wall=%es rss=%MKB" timeout $t env CARGO_NET_OFFLINE=true cargo kani --lib -Z stubbing --no-memory-safety-checks --target-dir /root/probe/td/$h --harness $h 2>&1 ) > /root/probe/last_$h.log
   echo "== $h: $(grep -E 'VERIFICATION|wall=|failed \(' /root/probe/last_$h.log | tr '\n' ' ') $(grep -m1 'Runtime Symex' /root/probe/last_$h.log) $(grep -A1 'Status: FAILURE' /root/probe/last_$h.log | grep Description | head -4 | tr '\n' ' ')"
 ) &
done
wait
