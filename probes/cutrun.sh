#!/bin/bash
# usage: cutrun.sh <in.out> <tag> <unwind> <timeout> [extra cbmc args]
IN=$1; TAG=$2; UNW=$3; TO=$4; shift 4
cd /root/probe
goto-instrument --list-goto-functions $IN 2>/dev/null | grep -v "body not available" | sed -E 's/ \/\* /\t/; s/ \*\/$//' | awk -F'\t' 'NF==2 && ($1 ~ /BTreeMap<|serde_json::Map<|collections::btree::|btree_map::/) {print $2}' | sort -u > cuts_$TAG.txt
N=$(wc -l < cuts_$TAG.txt)
ARGS=""; for f in $(cat cuts_$TAG.txt); do ARGS="$ARGS --remove-function-body $f"; done
goto-instrument $ARGS $IN ${TAG}_a.out > /dev/null 2>&1
goto-instrument --generate-function-body '.*(5btree|10serde_json3map).*' --generate-function-body-options assert-false-assume-false ${TAG}_a.out ${TAG}_b.out > /dev/null 2>&1
S=$(date +%s)
timeout $TO cbmc --no-malloc-may-fail --no-undefined-shift-check --no-signed-overflow-check --nan-check --no-self-loops-to-assumptions --no-pointer-primitive-check --no-pointer-check --no-bounds-check --object-bits 16 --unwind $UNW "$@" --sat-solver cadical --slice-formula ${TAG}_b.out --verbosity 8 > cb_$TAG.log 2>&1
E=$(date +%s)
echo "== $TAG cuts=$N wall=$((E-S))s $(grep -E '^VERIFICATION|Runtime Symex' cb_$TAG.log | tr '\n' ' ')"
echo "   non-reach FAILUREs: $(grep -E '^\[.*\] .*: FAILURE' cb_$TAG.log | grep -v reachability_check | cut -c1-200 | head -5)"
echo "   harness asserts: $(grep -E "verif_kani::[a-z_0-9]+\.assertion" cb_$TAG.log | sed -E 's/.*\] //' | cut -c1-120 | tr '\n' ';')"
