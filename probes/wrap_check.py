"""CrossHair probe: the real wrapper source is exec'd with the native module stubbed."""
import json, sys, types, importlib.util
from typing import Optional, Callable

CALLS = []
def _native_apply(value: str, data: str) -> str:
    if not isinstance(value, str) or not isinstance(data, str):
        raise TypeError("native apply takes (str, str)")
    CALLS.append((value, data))
    return json.dumps([value, data])

# load the real py/jsonlogic_rs/__init__.py with `.jsonlogic` stubbed
pkg = types.ModuleType("jsonlogic_rs"); pkg.__path__ = ["/repo/py/jsonlogic_rs"]
sys.modules["jsonlogic_rs"] = pkg
nat = types.ModuleType("jsonlogic_rs.jsonlogic"); nat.apply = _native_apply
sys.modules["jsonlogic_rs.jsonlogic"] = nat
src = open("/repo/py/jsonlogic_rs/__init__.py").read()
exec(compile(src, "/repo/py/jsonlogic_rs/__init__.py", "exec"), pkg.__dict__)

def check_apply_serialized(value: str, data: Optional[str], use_deser: bool) -> bool:
    """
    post: __return__
    """
    deser = (lambda s: ("D", s)) if use_deser else None
    got = pkg.apply_serialized(value, data, deser) if data is not None or use_deser else pkg.apply_serialized(value)
    raw = _native_apply(value, data if data is not None else "null")
    exp = deser(raw) if use_deser else json.loads(raw)
    return got == exp
