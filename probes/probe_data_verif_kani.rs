#![allow(unused)]
use super::*;
use serde_json::{Number, Value};

pub fn stub_format(_args: std::fmt::Arguments<'_>) -> String { String::new() }

#[kani::proof]
#[kani::unwind(5)]
fn v_get_index() {
    let arr: [u32; 3] = kani::any();
    let n: usize = kani::any(); kani::assume(n <= 3);
    let idx: i64 = kani::any();
    let r = get(&arr[..n], idx);
    let ni = n as i128; let ii = idx as i128;
    let exp: Option<usize> = if ii >= 0 { if ii < ni { Some(ii as usize) } else { None } } else { if -ii <= ni { Some((ni + ii) as usize) } else { None } };
    match (r, exp) {
        (Some(x), Some(e)) => assert!(*x == arr[e]),
        (None, None) => {}
        _ => assert!(false),
    }
}

fn class_char(k: u8) -> char { match k { 0 => 'a', 1 => '\u{e9}', 2 => '\u{20ac}', _ => '\u{1F600}' } }

#[kani::proof]
#[kani::stub(std::fmt::format, stub_format)]
#[kani::unwind(5)]
fn v_get_key_string() {
    let n: usize = kani::any(); kani::assume(n <= 2);
    let k0: u8 = kani::any(); let k1: u8 = kani::any(); kani::assume(k0 < 4 && k1 < 4);
    let mut s = String::with_capacity(8);
    if n > 0 { s.push(class_char(k0)); } if n > 1 { s.push(class_char(k1)); }
    let data = Value::String(s);
    let idx: i64 = kani::any(); kani::assume(idx != i64::MIN);
    let r = get_key(&data, KeyType::Number(idx));
    let inr = (idx >= 0 && (idx as i128) < n as i128) || (idx < 0 && (-(idx as i128)) <= n as i128);
    match &r {
        Some(Value::String(c)) => assert!(inr && c.len() >= 1 && c.len() <= 4),
        None => assert!(!inr),
        _ => assert!(false),
    }
    std::mem::forget(r); std::mem::forget(data);
}
