"""Core machinery: stage /repo's working tree, inject harnesses, compile them once with
Kani, run CBMC per harness in parallel, extract counterexamples, replay them natively
against the real code, write evidence.

The deciding step of every obligation is CBMC's verdict (SAT/UNSAT over all values of the
harness inputs within the stated bound).  Nothing here samples or enumerates inputs.
"""
import concurrent.futures
import glob
import hashlib
import json
import os
import random
import re
import resource
import shutil
import signal
import subprocess
import sys
import threading
import time

VERIF = os.path.dirname(os.path.dirname(os.path.abspath(__file__)))
REPO = os.environ.get("VERIF_REPO", "/repo")
SCRATCH_ROOT = os.environ.get("VERIF_SCRATCH", "/var/tmp/jlverif")
KANI_HOME = os.path.expanduser("~/.kani/kani-0.68.0")
KANI_LIB_C = os.path.join(KANI_HOME, "library/kani/kani_lib.c")
CACHE = os.path.join(VERIF, ".cache")
NCPU = int(os.environ.get("VERIF_NCPU", "0")) or os.cpu_count() or 4
MEM_BUDGET_GB = int(os.environ.get("VERIF_MEM_GB", "54"))

PARENT_FILE = {
    "crate": "src/lib.rs",
    "op": "src/op/mod.rs",
    "op::data": "src/op/data.rs",
    "op::array": "src/op/array.rs",
    "op::logic": "src/op/logic.rs",
    "op::string": "src/op/string.rs",
    "op::numeric": "src/op/numeric.rs",
    "value": "src/value.rs",
    "js_op": "src/js_op.rs",
}

CBMC_FLAGS = [
    "--no-malloc-may-fail", "--no-undefined-shift-check", "--no-signed-overflow-check",
    "--no-bounds-check", "--no-pointer-check", "--nan-check",
    "--no-self-loops-to-assumptions", "--no-pointer-primitive-check",
    "--object-bits", "16", "--sat-solver", "cadical", "--slice-formula",
]


def log(*a):
    print(*a, file=sys.stderr, flush=True)


def env_offline(extra=None):
    e = dict(os.environ)
    e["CARGO_NET_OFFLINE"] = "true"
    e.pop("RUSTFLAGS", None)
    if extra:
        e.update(extra)
    return e


# ------------------------------------------------------------------------------------
# harness metadata:   //@ harness: NAME k=v ...   //@ encodes: ...   //@ bound: ...
# ------------------------------------------------------------------------------------

class Harness:
    def __init__(self, name, file, parent):
        self.name = name
        self.file = file          # file name under harness/ (or generated)
        self.parent = parent      # parent module path, e.g. "op"
        self.attrs = {}
        self.encodes = []
        self.bound = ""
        self.finding = None
        self.cuts = ["nodrop"]   # default: deallocation (drop glue) is not modelled; '//@ cuts: none' turns it off
        self.unwind = None
        self.unwindset = []

    @property
    def tier(self):
        return self.attrs.get("tier", "quick")

    @property
    def kind(self):
        return self.attrs.get("kind", "main")

    @property
    def timeout(self):
        return int(self.attrs.get("timeout", "600"))

    @property
    def mem_gb(self):
        return int(self.attrs.get("mem", "6"))

    def modpath(self):
        mod = "verif_" + os.path.splitext(os.path.basename(self.file))[0]
        p = "" if self.parent == "crate" else self.parent + "::"
        return p + mod + "::" + self.name


def parse_harness_file(path, parent):
    hs = []
    cur = None
    src = open(path).read()
    for line in src.splitlines():
        s = line.strip()
        m = re.match(r"//@\s*harness:\s*(\w+)\s*(.*)$", s)
        if m:
            cur = Harness(m.group(1), os.path.basename(path), parent)
            for kv in m.group(2).split():
                if "=" in kv:
                    k, v = kv.split("=", 1)
                    cur.attrs[k] = v
            hs.append(cur)
            continue
        if cur is None:
            continue
        m = re.match(r"//@\s*(\w+):\s*(.*)$", s)
        if m:
            k, v = m.group(1), m.group(2).strip()
            if k == "encodes":
                cur.encodes += [x.strip() for x in v.split(",") if x.strip()]
            elif k == "bound":
                cur.bound = (cur.bound + " " + v).strip()
            elif k == "finding":
                cur.finding = v
            elif k == "cuts":
                if v.strip() == "none":
                    cur.cuts = []
                else:
                    cur.cuts = sorted(set(cur.cuts + v.split()))
            elif k == "unwindset":
                cur.unwindset += v.split()
            continue
        m = re.search(r"kani::unwind\((\d+)\)", s)
        if m:
            cur.unwind = int(m.group(1))
        if re.match(r"pub fn \w+\(\)", s):
            cur = None
    return hs


# ------------------------------------------------------------------------------------
# staging
# ------------------------------------------------------------------------------------

class Stage:
    """A scratch copy of /repo's *current working tree* with harness modules injected."""

    def __init__(self, prop, files, generated=None):
        """files: list of (parent_module, harness_file_name); generated: {name: source}"""
        self.prop = prop
        self.root = os.path.join(SCRATCH_ROOT, "%s.%d" % (prop, os.getpid()))
        self.crate = os.path.join(self.root, "crate")
        self.target = os.path.join(self.root, "target")
        self.work = os.path.join(self.root, "work")
        self.files = files
        self.generated = generated or {}
        self.harnesses = []

    def build(self):
        shutil.rmtree(self.root, ignore_errors=True)
        os.makedirs(self.crate)
        os.makedirs(self.work)
        subprocess.check_call([
            "rsync", "-a", "--exclude", "target", "--exclude", ".git", "--exclude", "tests",
            "--exclude", "*.so", "--exclude", "__pycache__", REPO + "/", self.crate + "/"])
        # dev-dependencies (reqwest) are only used by tests/, which is not staged
        ct = open(os.path.join(self.crate, "Cargo.toml")).read()
        ct = re.sub(r"\[dev-dependencies[^\[]*", "", ct, flags=re.S)
        ct += "\n[workspace]\n"
        open(os.path.join(self.crate, "Cargo.toml"), "w").write(ct)
        vdir = os.path.join(self.crate, "src", "verif")
        os.makedirs(vdir)
        shutil.copy(os.path.join(VERIF, "harness", "common.rs"), vdir)
        inject = {"crate": [
            '\n#[cfg(any(kani, verif_replay))]\n#[path = "%s"]\npub mod verif_common;\n'
            % os.path.join(vdir, "common.rs")]}
        for parent, fname in self.files:
            dst = os.path.join(vdir, fname)
            if fname in self.generated:
                open(dst, "w").write(self.generated[fname])
            else:
                shutil.copy(os.path.join(VERIF, "harness", fname), dst)
            mod = "verif_" + os.path.splitext(fname)[0]
            inject.setdefault(parent, []).append(
                '\n#[cfg(any(kani, verif_replay))]\n#[path = "%s"]\npub(crate) mod %s;\n' % (dst, mod))
            self.harnesses += parse_harness_file(dst, parent)
        for parent, lines in inject.items():
            p = os.path.join(self.crate, PARENT_FILE[parent])
            with open(p, "a") as f:
                f.write("".join(lines))
        # seed the target dir with the dependency cache built by setup
        ctgt = os.path.join(CACHE, "target")
        if os.path.isdir(ctgt):
            subprocess.check_call(["cp", "-a", ctgt, self.target])
        return self

    def cleanup(self):
        if os.environ.get("VERIF_KEEP"):
            log("[stage] kept", self.root)
            return
        shutil.rmtree(self.root, ignore_errors=True)

    # -- kani codegen ---------------------------------------------------------------
    def _codegen_group(self, idx, names):
        tgt = self.target if idx == 0 else "%s-g%d" % (self.target, idx)
        if idx != 0 and not os.path.isdir(tgt):
            src = self.target if os.path.isdir(self.target) else None
            if src:
                subprocess.check_call(["cp", "-a", src, tgt])
        cmd = ["cargo", "kani", "--lib", "-Z", "stubbing", "-Z", "unstable-options",
               "--no-memory-safety-checks", "--only-codegen", "--target-dir", tgt]
        if names is not None:
            cmd.append("--exact")
            for n in names:
                cmd += ["--harness", n]
        p = subprocess.run(cmd, cwd=self.crate, env=env_offline(), stdout=subprocess.PIPE,
                           stderr=subprocess.STDOUT, text=True)
        if p.returncode != 0:
            return None, p.stdout
        metas = glob.glob(os.path.join(tgt, "kani", "*", "debug", "build",
                                       "jsonlogic-rs", "*", "out", "*.kani-metadata.json"))
        metas.sort(key=os.path.getmtime)
        md = json.load(open(metas[-1]))
        out = {}
        for h in md["proof_harnesses"]:
            out[h["pretty_name"].split("::")[-1]] = h
        return out, p.stdout

    def codegen(self, harnesses=None, group_size=7):
        """Compile the selected harnesses (Kani emits one goto binary per harness, ~6 s each, serially);
        the set is split into groups compiled in parallel, each with its own target dir.
        Returns {harness name: metadata entry} or None when the staged crate does not compile."""
        t0 = time.time()
        if not harnesses:
            meta, logtxt = self._codegen_group(0, None)
            self.codegen_log, self.codegen_s = logtxt, time.time() - t0
            if meta is None:
                open(os.path.join(self.root, "codegen.log"), "w").write(logtxt)
            return meta
        names = [h.modpath() for h in harnesses]
        ng = max(1, min(NCPU // 2, (len(names) + group_size - 1) // group_size))
        groups = [names[i::ng] for i in range(ng)]
        # group 0 first alone for a moment is not needed: deps come from the cache copy
        meta = {}
        logs = []
        with concurrent.futures.ThreadPoolExecutor(max_workers=ng) as ex:
            futs = [ex.submit(self._codegen_group, i, g) for i, g in enumerate(groups)]
            for f in futs:
                m, l = f.result()
                logs.append(l)
                if m is None:
                    meta = None
                elif meta is not None:
                    meta.update(m)
        self.codegen_log = "\n".join(logs)
        self.codegen_s = time.time() - t0
        if meta is None:
            open(os.path.join(self.root, "codegen.log"), "w").write(self.codegen_log)
        return meta


# ------------------------------------------------------------------------------------
# per-harness pipeline: link, instrument, cut, cbmc
# ------------------------------------------------------------------------------------

def _limits(mem_gb):
    def f():
        os.setsid()
        b = mem_gb * (1 << 30)
        resource.setrlimit(resource.RLIMIT_AS, (b, b))
    return f


def run(cmd, timeout=None, mem_gb=None, cwd=None, stdout_path=None):
    """Run a command; returns (rc, stdout_text or None, elapsed, status) with status in ok|timeout.
    The peak RSS of the child (MB) is left in run.last_rss[threading.get_ident()]."""
    t0 = time.time()
    if stdout_path:
        out = open(stdout_path, "w")
        err = subprocess.DEVNULL
    else:
        import tempfile
        out = tempfile.TemporaryFile(mode="w+")
        err = subprocess.STDOUT
    p = subprocess.Popen(cmd, cwd=cwd, stdout=out, stderr=err, text=True,
                         preexec_fn=_limits(mem_gb) if mem_gb else os.setsid)
    st = "ok"
    rc = None
    rss = 0
    while True:
        try:
            pid, status, ru = os.wait4(p.pid, os.WNOHANG)
        except ChildProcessError:
            rc = p.poll()
            break
        if pid != 0:
            rc = os.waitstatus_to_exitcode(status)
            rss = ru.ru_maxrss // 1024
            p.returncode = rc
            break
        if timeout is not None and time.time() - t0 > timeout:
            st = "timeout"
            try:
                os.killpg(p.pid, signal.SIGKILL)
            except ProcessLookupError:
                pass
            timeout = None
        time.sleep(0.05 if time.time() - t0 < 5 else 0.5)
    so = None
    if stdout_path:
        out.close()
    else:
        out.seek(0)
        so = out.read()
        out.close()
    run.last_rss[threading.get_ident()] = rss
    return rc, so, time.time() - t0, st


run.last_rss = {}


def list_goto_functions(binary):
    rc, so, _, _ = run(["goto-instrument", "--list-goto-functions", binary])
    fns = []
    for line in (so or "").splitlines():
        m = re.match(r"^(.*) /\* (\S+) \*/$", line)
        if m and "body not available" not in line:
            fns.append((m.group(1).strip(), m.group(2)))
    return fns


# Types whose drop glue only releases memory (plain data: JSON values, strings, vectors, maps, boxes, the crate's
# own value/error types).  Drop glue of anything else - closures, guards such as Vec's SetLenOnDrop, iterators,
# locks - is KEPT, because those Drop impls have functional effects (SetLenOnDrop writes the vector length).
_DATA_TOKENS = set("""serde_json Value Map Number value map number N std core alloc string String vec Vec raw_vec RawVec
RawVecInner boxed Box result Result option Option error Error ErrorImpl ErrorCode collections BTreeMap btree_map btree borrow Cow str
u8 u16 u32 u64 usize i8 i16 i32 i64 isize char f64 f32 bool op data array logic numeric js_op Parsed Evaluated Operation
LazyOperation DataOperation Raw NumParams KeyType Primitive OpArgs Operator LazyOperator DataOperator ops Range Global
dyn Send Sync marker static mut const ptr Unique NonNull mem ManuallyDrop MaybeUninit""".split())


def NODROP(pretty):
    m = re.match(r"^std::ptr::(?:drop_in_place|drop_glue)::<(.*)>$", pretty)
    if not m:
        return False
    toks = re.findall(r"[A-Za-z_][A-Za-z0-9_]*", m.group(1))
    return all(t in _DATA_TOKENS for t in toks)


CUTSETS = {
    # name: (regex over pretty names, mode, regex over mangled names used to give "noop" bodies)
    #   mode "unreachable": body removed; the driver's generic step turns it into assert(false); assume(false)
    #                       (a CHECKED cut, R11: reaching it makes the run inconclusive)
    #   mode "noop":        body := return (nondet)   (drop glue: deallocation is not modelled)
    "maps": (r"BTreeMap<|serde_json::Map<|collections::btree::|btree_map::|btree::", "unreachable", None),
    "vecvalue": (r"Vec<serde_json::Value>.*(clone|drop|eq)|<\[serde_json::Value\]", "unreachable", None),
    "evaluate": (r"<op::(Operation|LazyOperation|DataOperation)(<'_>)? as Parser(<'_>)?>::evaluate", "unreachable", None),
    "evaluate_lazy_data": (r"<op::(LazyOperation|DataOperation)(<'_>)? as Parser(<'_>)?>::evaluate", "unreachable", None),
    # word-at-a-time character counting, only used for strings >= 32 bytes: asserted unreachable for short strings
    "strcount": (r"core::str::count::do_count_chars", "unreachable", None),
    "nodrop": (NODROP, "noop", None),
}


def postprocess(symtab, mangled, workdir, cuts):
    """Reproduce the Kani driver's post-link steps, plus the cut pass."""
    os.makedirs(workdir, exist_ok=True)
    a = os.path.join(workdir, "a.out")
    info = {"cuts": {}}

    def step(cmd):
        rc, so, _, _ = run(cmd)
        if rc != 0:
            return "step failed: %s\n%s" % (" ".join(cmd[:3]), (so or "")[-2000:])
        return None

    err = step(["goto-cc", symtab, KANI_LIB_C, "--function", mangled, "-o", a])
    if err:
        return None, {"error": err}
    lib = ["--add-library", "--no-malloc-may-fail"]
    if cuts:
        err = step(["goto-instrument"] + lib + [a, a])
        if err:
            return None, {"error": err}
        fns = list_goto_functions(a)
        args = []
        noop = []
        for c in cuts:
            rx, mode, mrx = CUTSETS[c]
            pred = rx if callable(rx) else (lambda pretty, rx=rx: re.search(rx, pretty))
            sel = sorted({mg for (pretty, mg) in fns if pred(pretty)})
            info["cuts"][c] = {"mode": mode, "functions": len(sel),
                               "names": sorted({pretty for (pretty, mg) in fns if pred(pretty)})[:40]}
            for f in sel:
                args += ["--remove-function-body", f]
            if mode == "noop" and sel:
                noop += sel
        if noop:
            args += ["--generate-function-body", "(" + "|".join(re.escape(f) for f in noop) + ")",
                     "--generate-function-body-options", "nondet-return"]
        if args:
            err = step(["goto-instrument"] + args + [a, a])
            if err:
                return None, {"error": err}
        lib = []
    err = step(["goto-instrument"] + lib + ["--generate-function-body-options", "assert-false-assume-false",
                "--generate-function-body", ".*", "--drop-unused-functions",
                "--ensure-one-backedge-per-target", a, a])
    if err:
        return None, {"error": err}
    return a, info


DEFAULT_UNWINDSET = [("collections::btree::", 3)]


def resolve_unwindset(binary, specs):
    """specs: list of 'regex=k' over loop ids / pretty function names (from cbmc --show-loops).
    Per-loop bounds stay CHECKED by unwinding assertions: a too-small bound is reported, never silently truncating."""
    pairs = list(DEFAULT_UNWINDSET)
    for sp in specs or []:
        rx, k = sp.rsplit("=", 1)
        pairs.append((rx, int(k)))
    rc, so, _, _ = run(["cbmc", "--show-loops", binary])
    loops = re.findall(r"^Loop (\S+):\n\s+file .*? function (.*)$", so or "", flags=re.M)
    out = {}
    for lid, fn in loops:
        for rx, k in pairs:          # later (harness-specific) entries win
            if re.search(rx, fn) or re.search(rx, lid):
                out[lid] = k
    return ["%s:%d" % (l, k) for l, k in sorted(out.items())]


def cbmc_cmd(binary, unwind, unwindset, extra=None):
    cmd = ["cbmc"] + CBMC_FLAGS
    if unwind is not None:
        cmd += ["--unwind", str(unwind)]
    if unwindset:
        cmd += ["--unwindset", ",".join(unwindset)]
    cmd += ["--unwinding-assertions"]
    cmd += [binary, "--json-ui", "--verbosity", "8"] + (extra or [])
    return cmd


IGNORED_CLASSES = {"NaN", "reachability_check", "sanity_check"}


def prop_class(name):
    m = re.match(r"^(.*)\.([A-Za-z_\-]+)\.(\d+)$", name)
    if m:
        return m.group(2)
    m = re.match(r"^(.*)\.(recursion|unwind)$", name)
    if m:
        return m.group(2)
    return "other"


def parse_cbmc_json(path):
    """Returns dict(status, props=[...], stats)"""
    try:
        data = json.load(open(path))
    except Exception as e:  # truncated output (killed / OOM)
        txt = open(path, errors="replace").read()
        return {"status": "error", "error": "unparsable cbmc output: %s; tail=%s" % (e, txt[-300:]), "props": [], "stats": {}}
    props = []
    stats = {}
    status = None
    errors = []
    for item in data:
        if "result" in item:
            for r in item["result"]:
                props.append({
                    "name": r.get("property", ""),
                    "status": r.get("status"),
                    "desc": r.get("description", ""),
                    "fn": (r.get("sourceLocation") or {}).get("function", ""),
                    "line": (r.get("sourceLocation") or {}).get("line", ""),
                    "file": (r.get("sourceLocation") or {}).get("file", ""),
                    "trace": r.get("trace"),
                })
        elif "messageText" in item:
            t = item["messageText"]
            if item.get("messageType") == "ERROR":
                errors.append(t)
            m = re.search(r"Runtime Symex: ([\d.e+-]+)s", t)
            if m:
                stats["symex_s"] = float(m.group(1))
            m = re.search(r"Runtime Solver: ([\d.e+-]+)s", t)
            if m:
                stats["solver_s"] = stats.get("solver_s", 0) + float(m.group(1))
            m = re.search(r"Runtime decision procedure: ([\d.e+-]+)s", t)
            if m:
                stats["decision_s"] = float(m.group(1))
            m = re.search(r"(\d+) variables, (\d+) clauses", t)
            if m:
                stats["variables"], stats["clauses"] = int(m.group(1)), int(m.group(2))
            m = re.search(r"Generated (\d+) VCC\(s\), (\d+) remaining after simplification", t)
            if m:
                stats["vccs"], stats["vccs_remaining"] = int(m.group(1)), int(m.group(2))
            m = re.search(r"size of program expression: (\d+) steps", t)
            if m:
                stats["program_steps"] = int(m.group(1))
        elif "cProverStatus" in item:
            status = item["cProverStatus"]
    return {"status": status or "error", "props": props, "stats": stats, "errors": errors}


def classify(parsed):
    """Kani-style interpretation of CBMC's property list.
    returns dict(verdict, failures=[props], covers={desc: bool}, inconclusive=[reasons])"""
    fails, incon, covers = [], [], {}
    n_checked = 0
    reach = {}
    for p in parsed["props"]:
        cls = prop_class(p["name"])
        st = p["status"]
        if cls == "cover":
            # cover is an assert(!cond): FAILURE == satisfied
            covers[p["desc"]] = covers.get(p["desc"], False) or (st == "FAILURE")
            continue
        if cls == "reachability_check":
            reach[p["desc"]] = (st == "FAILURE")
            continue
        if cls in IGNORED_CLASSES:
            continue
        n_checked += 1
        if st == "SUCCESS":
            continue
        if st == "FAILURE":
            d = p["desc"]
            if cls in ("unwind", "recursion") or "unwinding assertion" in d or "recursion unwinding" in d:
                incon.append("unwinding bound too small: " + p["name"])
            elif cls == "unsupported_construct" or "is not currently supported by Kani" in d:
                incon.append("unsupported construct reachable: " + d[:160])
            elif re.search(r"undefined function should be unreachable|Function with missing definition|assert false$|assertion false$", d) and cls != "assertion_user":
                # body generated by goto-instrument (undefined function, or an asserted cut)
                if ".assertion." in p["name"] and not p["fn"].startswith(("op::verif_", "verif_", "value::verif_", "js_op::verif_", "op::data::verif_")):
                    incon.append("cut / undefined function reached: " + p["fn"][:160])
                else:
                    fails.append(p)
            else:
                fails.append(p)
        else:
            incon.append("property %s has status %s" % (p["name"], st))
    if parsed["status"] == "error":
        incon.append(parsed.get("error", "cbmc error"))
    if parsed.get("errors"):
        incon.append("cbmc error message: " + "; ".join(parsed["errors"])[:300])
    return {"failures": fails, "inconclusive": incon, "covers": covers, "checked": n_checked,
            "reach": reach}


def extract_inputs(trace):
    """Read the values of the harness inputs (verif_common::inp::<ID>) from a CBMC trace."""
    vals = {}
    for st in trace or []:
        if st.get("stepType") != "assignment":
            continue
        lhs = st.get("lhs", "")
        if not lhs.startswith("goto_symex$$return_value"):
            continue
        fn = (st.get("sourceLocation") or {}).get("function", "")
        m = re.search(r"verif_common::inp::<(\d+)(?:_?u32)?>", fn)
        if not m:
            continue
        v = st.get("value") or {}
        b = v.get("binary")
        if b is None:
            continue
        vals.setdefault(int(m.group(1)), int(b, 2))   # first assignment = the call's return
    return vals
