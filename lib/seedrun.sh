#!/bin/bash
# usage: seedrun.sh <PROP> <patch.diff> [extra check args]   - runs ./check PROP against a scratch worktree with the patch applied
# (equivalent to `git -C /repo apply`, run, `git -C /repo checkout -- .`, but leaves /repo untouched so it can run while other checks use /repo)
P=$1; PATCH=$2; shift 2
WT=/tmp/seedwt/$P.$$
mkdir -p /tmp/seedwt /tmp/seedev
git -C /repo worktree add -q --detach $WT HEAD || exit 3
git -C $WT apply $PATCH || { echo "PATCH DOES NOT APPLY"; git -C /repo worktree remove --force $WT; exit 3; }
cd /verif
VERIF_REPO=$WT VERIF_EVIDENCE_DIR=/tmp/seedev/$P.$$ ./check $P "$@"
rc=$?
git -C /repo worktree remove --force $WT
exit $rc
