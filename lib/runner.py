"""Property-level driver: schedule harnesses, decide, replay, write evidence."""
import hashlib
import json
import os
import random
import re
import subprocess
import sys
import threading
import time

from vlib import *  # noqa
import vlib

EVID = os.environ.get("VERIF_EVIDENCE_DIR") or os.path.join(VERIF, "evidence")
REPLAY_DIR = os.path.join(EVID, "replay")


def load_known():
    p = os.path.join(VERIF, "known_findings.json")
    if os.path.exists(p):
        return json.load(open(p))
    return {"findings": [], "fixed": []}


# ------------------------------------------------------------------------------------
# native replay
# ------------------------------------------------------------------------------------

class Replayer:
    """Builds the staged crate natively with --cfg verif_replay (all Kani stubs and cuts
    are off: the unmodified real crate, std and serde_json run) and executes one harness
    body on the concrete inputs of a solver model."""

    def __init__(self, stage):
        self.stage = stage
        self.bins = {}
        self.lock = threading.Lock()

    def _build(self, profile):
        with self.lock:
            if profile in self.bins:
                return self.bins[profile]
            cmd = ["cargo", "test", "--lib", "--no-run", "--offline", "--message-format=json",
                   "--target-dir", os.path.join(self.stage.root, "target-replay")]
            if profile == "release":
                cmd.append("--release")
            env = env_offline({"RUSTFLAGS": "--cfg verif_replay -C overflow-checks=%s -A warnings"
                               % ("on" if profile == "dev" else "off")})
            p = subprocess.run(cmd, cwd=self.stage.crate, env=env, stdout=subprocess.PIPE,
                               stderr=subprocess.PIPE, text=True)
            exe = None
            for line in p.stdout.splitlines():
                try:
                    j = json.loads(line)
                except ValueError:
                    continue
                if j.get("reason") == "compiler-artifact" and j.get("executable") and j.get("profile", {}).get("test"):
                    exe = j["executable"]
            if p.returncode != 0 or not exe:
                self.bins[profile] = None
                self.err = p.stderr[-3000:]
            else:
                self.bins[profile] = exe
            return self.bins[profile]

    def run(self, harness, inputs, profiles=("dev", "release")):
        """returns {profile: dict(outcome=reproduced|passed|assume_failed|build_error, msg)}"""
        os.makedirs(self.stage.work, exist_ok=True)
        case = os.path.join(self.stage.work, "case-%s-%d.txt" % (harness.name, threading.get_ident()))
        with open(case, "w") as f:
            for k, v in sorted(inputs.items()):
                f.write("%d %d\n" % (int(k), int(v)))
        res = {}
        for prof in profiles:
            exe = self._build(prof)
            if not exe:
                res[prof] = {"outcome": "build_error", "msg": getattr(self, "err", "")[-800:]}
                continue
            env = dict(os.environ, VERIF_REPLAY_CASE=case, RUST_BACKTRACE="0")
            try:
                p = subprocess.run([exe, "--exact", harness.modpath(), "--nocapture", "--test-threads", "1"],
                                   env=env, stdout=subprocess.PIPE, stderr=subprocess.STDOUT, text=True,
                                   timeout=120)
                out, rc = p.stdout, p.returncode
            except subprocess.TimeoutExpired:
                out, rc = "replay timed out (hang)", 124
            shown = re.findall(r"VERIF-SHOW (.*)", out)
            if "VERIF-REPLAY-ASSUME-FAILED" in out or rc == 78:
                res[prof] = {"outcome": "assume_failed", "msg": ""}
            elif rc == 0 and re.search(r"test result: ok\. 1 passed", out):
                res[prof] = {"outcome": "passed", "msg": ""}
            elif rc == 0:
                res[prof] = {"outcome": "not_run", "msg": out[-400:]}
            else:
                m = re.search(r"panicked at ([^\n]*\n[^\n]*)", out)
                res[prof] = {"outcome": "reproduced", "msg": (m.group(1) if m else out[-400:]).strip()}
            res[prof]["decoded"] = shown
        return res


# ------------------------------------------------------------------------------------
# one harness
# ------------------------------------------------------------------------------------

def run_harness(stage, meta, h, tier_timeout_scale=1.0):
    """link + instrument + cbmc; returns result dict"""
    t0 = time.time()
    r = {"harness": h.name, "kind": h.kind, "encodes": h.encodes, "bound": h.bound,
         "unwind": h.unwind, "cuts": h.cuts, "finding": h.finding}
    md = meta.get(h.name)
    if md is None:
        r.update(verdict="inconclusive", reasons=["harness not found in Kani metadata (out of date?)"])
        return r
    r["stubs"] = ["%s -> %s" % (s["original"].replace(" ", ""), s["replacement"]) for s in md["attributes"]["stubs"]]
    wd = os.path.join(stage.work, h.name)
    binary, info = postprocess(md["goto_file"], md["mangled_name"], wd, h.cuts)
    r["cut_info"] = info.get("cuts", {})
    if binary is None:
        r.update(verdict="inconclusive", reasons=[info.get("error", "postprocess failed")])
        return r
    r["instrument_s"] = round(time.time() - t0, 2)
    unwind = md["attributes"]["unwind_value"]
    uws = resolve_unwindset(binary, h.unwindset)
    r["unwindset"] = uws
    out = os.path.join(wd, "res.json")
    timeout = h.timeout * tier_timeout_scale
    rc, _, el, st = run(cbmc_cmd(binary, unwind, uws), timeout=timeout, mem_gb=h.mem_gb, stdout_path=out)
    r["cbmc_s"] = round(el, 2)
    r["rss_mb"] = run.last_rss.get(threading.get_ident(), 0)
    if st == "timeout":
        r.update(verdict="inconclusive", reasons=["cbmc timed out after %ds" % timeout])
        return r
    parsed = parse_cbmc_json(out)
    cl = classify(parsed)
    r["stats"] = parsed["stats"]
    r["checked"] = cl["checked"]
    r["covers"] = cl["covers"]
    r["reasons"] = cl["inconclusive"]
    r["failures"] = [{"name": p["name"], "desc": p["desc"], "fn": p["fn"], "line": p["line"]} for p in cl["failures"]]
    r["binary"] = binary
    r["unwind_value"] = unwind
    if rc not in (0, 10) and not cl["failures"] and not cl["inconclusive"]:
        r["reasons"].append("cbmc exit code %s" % rc)
    if r["reasons"]:
        r["verdict"] = "inconclusive"
    elif cl["failures"]:
        r["verdict"] = "fail"
    else:
        r["verdict"] = "pass"
        try:  # keep the scratch directory small: the goto binary is only needed again for a counterexample trace
            os.remove(binary)
        except OSError:
            pass
    return r


def counterexample(stage, h, r, fail):
    """Re-run CBMC on the single failing property with --trace and read the inputs."""
    wd = os.path.join(stage.work, h.name)
    out = os.path.join(wd, "trace-%s.json" % hashlib.md5(fail["name"].encode()).hexdigest()[:8])
    rc, _, el, st = run(cbmc_cmd(r["binary"], r["unwind_value"], r.get("unwindset"),
                                 ["--property", fail["name"], "--trace"]),
                        timeout=h.timeout * 2, mem_gb=h.mem_gb, stdout_path=out)
    if st == "timeout":
        return None
    parsed = parse_cbmc_json(out)
    for p in parsed["props"]:
        if p["name"] == fail["name"] and p["status"] == "FAILURE" and p.get("trace"):
            return extract_inputs(p["trace"])
    return None


# ------------------------------------------------------------------------------------
# scheduler
# ------------------------------------------------------------------------------------

def schedule(jobs, fn, mem_budget=MEM_BUDGET_GB, ncpu=NCPU):
    """jobs: list of harnesses; runs fn(h) with at most ncpu in parallel and within the
    memory budget (sum of declared per-harness limits)."""
    results = {}
    lock = threading.Condition()
    state = {"mem": 0, "cpu": 0}
    pending = list(jobs)

    def worker(h):
        try:
            results[h.name] = fn(h)
        except Exception as e:  # noqa
            import traceback
            results[h.name] = {"harness": h.name, "kind": h.kind, "verdict": "inconclusive",
                               "reasons": ["runner exception: %r %s" % (e, traceback.format_exc()[-500:])]}
        with lock:
            state["mem"] -= h.mem_gb
            state["cpu"] -= 1
            lock.notify_all()

    threads = []
    with lock:
        while pending:
            started = False
            for h in list(pending):
                if state["cpu"] < ncpu and (state["mem"] + h.mem_gb <= mem_budget or state["cpu"] == 0):
                    pending.remove(h)
                    state["mem"] += h.mem_gb
                    state["cpu"] += 1
                    t = threading.Thread(target=worker, args=(h,))
                    t.start()
                    threads.append(t)
                    started = True
            if pending and not started:
                lock.wait()
            elif pending:
                continue
    for t in threads:
        t.join()
    return results


# ------------------------------------------------------------------------------------
# property run
# ------------------------------------------------------------------------------------

def run_property(prop, spec, tier, seed, only=None):
    """returns (exit_code, evidence dict)"""
    t0 = time.time()
    known = load_known()
    known_ids = {f["id"]: f for f in known.get("findings", []) if f.get("property") == prop}
    generated = {}
    for g in spec.get("generators", []):
        generated.update(g(tier))
    files = list(spec["files"]) + [(par, name) for (par, name) in spec.get("generated_files", [])]
    stage = Stage(prop, files, generated).build()
    lines = []       # stdout lines
    exit_code = 0
    ev_h = []
    try:
        hs = [h for h in stage.harnesses if (tier == "thorough" or h.tier == "quick")]
        of = spec.get("only_from") or {}
        hs = [h for h in hs if h.file not in of or h.name in of[h.file]]
        if only:
            hs = [h for h in hs if any(re.search(o, h.name) for o in only)]
        rnd = random.Random(seed)
        rnd.shuffle(hs)
        hs.sort(key=lambda h: -h.timeout)   # long ones first (stable sort keeps the shuffle inside ties)
        meta = stage.codegen(hs)
        if meta is None:
            log(stage.codegen_log[-6000:])
            log("[%s] harnesses do not compile against the current tree (harness out of date?) - inconclusive" % prop)
            ev = base_evidence(prop, tier, seed, t0, [], spec)
            ev["coverage"]["explanation"] = "INCONCLUSIVE: harness module failed to compile against the staged tree"
            return 2, ev, ["INCONCLUSIVE property=%s harnesses failed to compile" % prop]
        log("[%s] codegen %.0fs, %d harnesses selected (%s tier)" % (prop, stage.codegen_s, len(hs), tier))
        results = schedule(hs, lambda h: run_harness(stage, meta, h))
        replayer = Replayer(stage)
        inconclusive = False
        for h in hs:
            r = results[h.name]
            v = r["verdict"]
            e = {k: r.get(k) for k in ("harness", "kind", "encodes", "bound", "unwind", "cuts", "stubs",
                                       "cut_info", "stats", "checked", "covers", "cbmc_s", "rss_mb", "instrument_s", "unwindset",
                                       "finding")}
            e["verdict"] = v
            msg = ""
            if v == "inconclusive":
                e["reasons"] = r.get("reasons")
                msg = "; ".join(r.get("reasons") or [])[:300]
                resource = all(re.search(r"timed out|Out of memory|out of memory|status ERROR|cbmc exit code|cbmc error|unparsable cbmc output", x)
                               for x in (r.get("reasons") or ["?"]))
                if h.attrs.get("optional") == "1" and resource:
                    # exploratory obligation of the thorough tier: resources exhausted => NOT decided, outside this run's
                    # claim (listed as such in evidence); any other kind of inconclusiveness still fails the run
                    e["verdict"] = "undecided-resources"
                else:
                    inconclusive = True
            elif h.kind == "witness":
                # vacuity twin: its final assert(false) must be violated
                ok = v == "fail" and any("WITNESS" in f["desc"] for f in r["failures"])
                other = [f for f in r.get("failures", []) if "WITNESS" not in f["desc"]]
                e["verdict"] = "witness-reached" if ok else "vacuous"
                if not ok:
                    inconclusive = True
                    msg = "reachability witness NOT violated: harness is vacuous"
            elif v == "pass":
                unsat = [c for c, s in (r.get("covers") or {}).items() if not s]
                if unsat:
                    e["verdict"] = "vacuous"
                    inconclusive = True
                    msg = "cover(s) unsatisfiable: %s" % unsat
            else:  # fail
                outcomes = []
                reproduced = None
                for f in r["failures"][:3]:
                    inputs = counterexample(stage, h, r, f)
                    if inputs is None:
                        outcomes.append({"property": f, "replay": "no trace"})
                        continue
                    rep = replayer.run(h, inputs)
                    outcomes.append({"property": f, "inputs": inputs, "replay": rep})
                    if any(x["outcome"] == "reproduced" for x in rep.values()):
                        reproduced = outcomes[-1]
                        break
                e["counterexamples"] = outcomes
                if reproduced:
                    path = write_replay_file(prop, h, reproduced)
                    if h.kind == "finding" and h.finding in known_ids:
                        e["verdict"] = "known-finding"
                        lines.append("KNOWN-FINDING: property=%s %s [%s] replay=%s" % (
                            prop, known_ids[h.finding]["what"], h.finding, path))
                    else:
                        e["verdict"] = "violation"
                        exit_code = 1
                        lines.append("VIOLATION property=%s replay=%s" % (prop, path))
                        lines.append("  harness=%s failing=%s :: %s" % (
                            h.name, reproduced["property"]["desc"][:200],
                            json.dumps(reproduced["replay"])[:400]))
                else:
                    e["verdict"] = "unreproduced-counterexample"
                    inconclusive = True
                    msg = "solver counterexample did not reproduce natively: " + json.dumps(outcomes)[:600]
            if h.kind == "finding" and e["verdict"] == "pass":
                e["note"] = "finding %s no longer reproduces (obligation discharged)" % h.finding
            log("[%s] %-34s %-26s cbmc=%ss rss=%sMB %s" % (prop, h.name, e["verdict"], r.get("cbmc_s"), r.get("rss_mb"), msg))
            ev_h.append(e)
        ev = base_evidence(prop, tier, seed, t0, ev_h, spec)
        ev["codegen_s"] = round(stage.codegen_s, 1)
        if exit_code == 0 and inconclusive:
            exit_code = 2
            lines.append("INCONCLUSIVE property=%s (see evidence; no verdict is claimed)" % prop)
        ev["violations"] = sum(1 for e in ev_h if e["verdict"] == "violation")
        return exit_code, ev, lines
    finally:
        stage.cleanup()


def write_replay_file(prop, h, cex):
    os.makedirs(REPLAY_DIR, exist_ok=True)
    body = {"property": prop, "harness": h.name, "harness_file": h.file, "parent": h.parent,
            "inputs": {str(k): v for k, v in cex["inputs"].items()},
            "failing": cex["property"], "replay": cex["replay"]}
    hsh = hashlib.sha1(json.dumps(body["inputs"], sort_keys=True).encode()).hexdigest()[:10]
    path = os.path.join(REPLAY_DIR, "%s-%s-%s.json" % (prop, h.name, hsh))
    json.dump(body, open(path, "w"), indent=1)
    return path


def base_evidence(prop, tier, seed, t0, ev_h, spec):
    queries = sum((e.get("checked") or 0) for e in ev_h)
    discharged = sum((e.get("checked") or 0) for e in ev_h if e["verdict"] in ("pass", "witness-reached"))
    solver_s = sum(((e.get("stats") or {}).get("solver_s") or 0) for e in ev_h)
    symex_s = sum(((e.get("stats") or {}).get("symex_s") or 0) for e in ev_h)
    fns = sorted({f for e in ev_h for f in (e.get("encodes") or [])})
    mains = [e for e in ev_h if e["kind"] in ("main", "finding")]
    samples = []
    for e in ev_h[:60]:
        samples.append({"harness": e["harness"], "kind": e["kind"], "bound": e.get("bound"),
                        "verdict": e["verdict"], "obligations": e.get("checked"),
                        "cbmc_s": e.get("cbmc_s"),
                        "vars_clauses": [(e.get("stats") or {}).get("variables"), (e.get("stats") or {}).get("clauses")]})
    ev = {
        "property_id": prop, "tier": tier, "seed": seed, "level": "model_checking",
        "coverage": {
            "evaluations": max(queries, 0),
            "distinct_nontrivial": len([e for e in mains if e["verdict"] in ("pass", "known-finding", "violation")]),
            "rule": "one evaluation = one CBMC property (assertion, panic, overflow, bounds, unwinding assertion, "
                    "cut assertion) decided by the SAT solver over ALL values of the harness's symbolic inputs; "
                    "distinct_nontrivial = number of distinct main/finding harnesses (each a different "
                    "function/shape/bound) that reached a solver verdict and whose cover/witness obligations were met",
            "samples": samples or [{"note": "no harness ran"}],
            "obligations": queries,
            "discharged": discharged,
            "checker_cmd": "cargo kani --only-codegen (Kani 0.68) ; goto-cc/goto-instrument ; cbmc 6.11 --sat-solver cadical",
            "trusted_base": ["rustc/Kani MIR->goto translation", "CBMC symbolic execution + CaDiCaL",
                             "Kani's models of std", "harness reference models in /verif/harness"],
            "functions_encoded": fns,
            "harnesses": ev_h,
            "solver_time_s": round(solver_s, 2),
            "symex_time_s": round(symex_s, 2),
            "bounds": spec.get("bounds", ""),
            "outside_claim": spec.get("out", ""),
            "exhaustive": False,
        },
        "assumptions": spec.get("assumptions", []) + [
            "Kani stubs listed per harness (std::fmt::format -> empty string unless formatting is the subject)",
            "memory-safety pointer checks off (safe Rust); panics, unwrap, arithmetic overflow, slice bounds, unwinding assertions on",
            "NaN-production checks ignored by design (code relies on inf-inf in fract())",
        ],
        "wall_s": round(time.time() - t0, 1),
        "violations": 0,
    }
    return ev
