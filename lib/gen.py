"""Harness generators (matrices etc.).  Each returns {file name: rust source}."""
