"""Harness generators.  Each generator returns {file name: rust source}; the oracle in the generated text is
always a reference model written from the property statement (harness/*.rs preludes), never the code under test."""
import os

V = os.path.dirname(os.path.dirname(os.path.abspath(__file__)))


def prelude(name):
    return open(os.path.join(V, "harness", name)).read()


def shape_expr(kind, a, b=None):
    """Rust expression constructing an operand of a CONCRETE shape (R1) with symbolic payload from input IDs a (, b)."""
    if kind == "null":
        return "Value::Null"
    if kind == "bool":
        return "Value::Bool(in_bool::<%d>())" % a
    if kind == "i64":
        return "Value::Number(Number::from(in_i64::<%d>()))" % a
    if kind == "u64":
        return "Value::Number(Number::from(in_u64::<%d>()))" % a
    if kind == "f64":
        return "{ let f = in_f64::<%d>(); assume(f.is_finite()); Value::Number(Number::from_f64(f).unwrap()) }" % a
    if kind == "num":
        return "Value::Number(in_number::<%d, %d>())" % (a, b if b is not None else a + 50)
    if kind == "obj":
        return "Value::Object(serde_json::Map::new())"
    if kind == "emptyarr":
        return "Value::Array(Vec::new())"
    if kind == "emptystr":
        return "Value::String(String::new())"
    if kind.startswith("c:"):
        return "Value::Number(Number::from_f64(%s).unwrap())" % kind[2:]
    raise ValueError(kind)


SHAPE_DOC = {
    "null": "null", "bool": "Bool(any)", "i64": "Number(any i64)", "u64": "Number(any u64)",
    "f64": "Number(any finite f64 bit pattern)", "num": "Number(any repr, any payload)", "obj": "{}",
    "emptyarr": "[]", "emptystr": '""',
}


def sdoc(k):
    return SHAPE_DOC.get(k, "constant " + k[2:] if k.startswith("c:") else k)


def ident(k):
    return k.replace("c:", "k").replace(".", "p").replace("-", "m").replace("+", "")


STUB_FMT = "#[cfg_attr(kani, kani::stub(std::fmt::format, stub_format))]\n"


# ------------------------------------------------------------------------------------
# C10: arithmetic operators (G3 harnesses of the decomposition)
# ------------------------------------------------------------------------------------

def c10_harness(op, opname, shapes, tier, timeout, conv, cuts=""):
    n = len(shapes)
    name = "c10_%s_%s" % (opname, "_".join(ident(s) for s in shapes) if shapes else "none")
    lets = "".join("    let v%d = %s;\n" % (i, shape_expr(s, 10 * i + 1, 10 * i + 2)) for i, s in enumerate(shapes))
    items = ", ".join("&v%d" % i for i in range(n))
    forget = "".join("    std::mem::forget(v%d);\n" % i for i in range(n))
    refconv = "ref_to_number" if conv == "number" else "ref_parse_float"
    stubconv = ("crate::js_op::to_number, ref_to_number" if conv == "number"
                else "crate::js_op::parse_float, ref_parse_float")
    cs = ["%s(&v%d)" % (refconv, i) for i in range(n)]
    if op in ("-", "/", "%") and n == 2:
        exp = "match (%s, %s) { (Some(a), Some(b)) => Some(a %s b), _ => None }" % (cs[0], cs[1], op)
    elif op == "-" and n == 1:
        exp = "%s.map(|a| -1.0 * a)" % cs[0]
    elif op in ("+", "*"):
        init = "0.0" if op == "+" else "1.0"
        exp = "{ let mut acc: Option<f64> = Some(%s);\n" % init
        for c in cs:
            exp += "        acc = match (acc, %s) { (Some(t), Some(x)) => Some(t %s x), _ => None };\n" % (c, op)
        exp += "        acc }"
    elif op in ("max", "min"):
        cmpop = ">" if op == "max" else "<"
        init = "f64::NEG_INFINITY" if op == "max" else "f64::INFINITY"
        # reference: the greatest / least operand value (statement); identity only matters for n = 0, excluded by arity
        exp = "{ let mut acc: Option<f64> = Some(%s);\n" % init
        for c in cs:
            exp += "        acc = match (acc, %s) { (Some(t), Some(x)) => Some(if x %s t { x } else { t }), _ => None };\n" % (c, cmpop)
        exp += "        acc }"
    else:
        raise ValueError(op)
    doc = ", ".join(sdoc(s) for s in shapes) or "no operands"
    return name, '''
//@ harness: %(name)s tier=%(tier)s timeout=%(timeout)d kind=main
//@ encodes: OPERATOR_MAP["%(op)s"] closure and the js_op helper it calls (conversion callee replaced by its reference, G2; narrowing by a recorder, G1)
//@ bound: operands (%(doc)s): result == to_number_value(exact IEEE fold), error iff an operand is non-numeric
%(cuts)s#[cfg_attr(kani, kani::proof)]
#[cfg_attr(kani, kani::unwind(6))]
%(fmt)s#[cfg_attr(kani, kani::stub(%(stubconv)s))]
#[cfg_attr(kani, kani::stub(crate::value::to_number_value, tnv_record))]
#[cfg_attr(verif_replay, test)]
pub fn %(name)s() {
    tnv_setup();
%(lets)s    let mut items: Vec<&Value> = Vec::with_capacity(4);
%(pushes)s
    let r = table_op("%(op)s", &items);
    vshow!("{:?} {:?} = {:?}", "%(op)s", items, r);
    let exp: Option<f64> = %(exp)s;
    arith_check(&r, exp);
    std::mem::forget(r);
%(forget)s}
''' % dict(name=name, tier=tier, timeout=timeout, op=op, doc=doc, fmt=STUB_FMT, stubconv=stubconv,
           lets=lets, pushes="".join("    items.push(&v%d);\n" % i for i in range(n)), exp=exp, forget=forget,
           cuts=("//@ cuts: %s\n" % cuts) if cuts else "")


def gen_c10(tier):
    out = prelude("c10_op.rs")
    Q, T = "quick", "thorough"
    plan = [
        # (op, name, shapes, tier, timeout, conversion)
        ("-", "sub", ["f64", "f64"], Q, 400, "number"),
        ("-", "sub", ["i64", "u64"], Q, 400, "number"),
        ("-", "sub", ["null", "f64"], Q, 300, "number"),
        ("-", "sub", ["f64", "bool"], Q, 300, "number"),
        ("-", "sub", ["obj", "f64"], Q, 300, "number"),
        ("-", "sub", ["u64", "obj"], Q, 300, "number"),
        ("-", "sub", ["u64", "f64"], T, 400, "number"),
        ("-", "sub", ["f64", "i64"], T, 400, "number"),
        ("-", "sub", ["bool", "null"], T, 300, "number"),
        ("-", "sub", ["emptyarr", "emptystr"], T, 300, "number"),
        ("-", "neg", ["f64"], Q, 300, "number"),
        ("-", "neg", ["i64"], Q, 300, "number"),
        ("-", "neg", ["u64"], Q, 300, "number"),
        ("-", "neg", ["bool"], Q, 300, "number"),
        ("-", "neg", ["null"], Q, 300, "number"),
        ("-", "neg", ["obj"], Q, 300, "number"),
        ("/", "div", ["f64", "c:3.0"], Q, 400, "number"),
        ("/", "div", ["f64", "c:0.0"], Q, 300, "number"),
        ("/", "div", ["null", "f64"], Q, 300, "number"),
        ("/", "div", ["i64", "c:0.1"], T, 900, "number"),
        ("/", "div", ["c:-7.5", "u64"], T, 900, "number"),
        ("/", "div", ["bool", "bool"], Q, 300, "number"),
        ("/", "div", ["f64", "obj"], Q, 300, "number"),
        ("%", "mod", ["f64", "c:3.0"], Q, 900, "number"),
        ("%", "mod", ["c:7.5", "i64"], T, 900, "number"),
        ("%", "mod", ["null", "f64"], Q, 300, "number"),
        ("%", "mod", ["f64", "c:0.0"], Q, 300, "number"),
        ("%", "mod", ["obj", "f64"], Q, 300, "number"),
        ("+", "add", [], Q, 300, "float"),
        ("+", "add", ["f64"], Q, 300, "float"),
        ("+", "add", ["f64", "f64"], Q, 400, "float"),
        ("+", "add", ["i64", "u64"], Q, 400, "float"),
        ("+", "add", ["f64", "null"], Q, 300, "float"),
        ("+", "add", ["bool", "f64"], Q, 300, "float"),
        ("+", "add", ["i64", "f64", "u64"], T, 1200, "float"),
        ("+", "add", ["f64", "f64", "obj"], T, 600, "float"),
        ("*", "mul", ["f64"], Q, 300, "float"),
        ("*", "mul", ["f64", "c:3.0"], Q, 600, "float"),
        ("*", "mul", ["c:-7.5", "f64"], Q, 600, "float"),
        ("*", "mul", ["i64", "c:0.1"], T, 900, "float"),
        ("*", "mul", ["u64", "null"], Q, 300, "float"),
        ("*", "mul", ["f64", "c:2.0", "c:0.5"], T, 900, "float"),
        ("max", "max", ["f64"], Q, 300, "number"),
        ("max", "max", ["f64", "f64"], Q, 400, "number"),
        ("max", "max", ["i64", "u64", "f64"], Q, 600, "number"),
        ("max", "max", ["null", "f64", "bool"], T, 600, "number"),
        ("max", "max", ["f64", "obj"], Q, 300, "number"),
        ("min", "min", ["f64"], Q, 300, "number"),
        ("min", "min", ["f64", "f64"], Q, 400, "number"),
        ("min", "min", ["u64", "f64", "i64"], Q, 600, "number"),
        ("min", "min", ["bool", "null", "f64"], T, 600, "number"),
        ("min", "min", ["obj", "i64"], Q, 300, "number"),
    ]
    for (op, nm, shapes, t, to, conv) in plan:
        # error paths of the iterator folds drop a merged Result<f64, Error{Value}>: deallocation is not modelled there
        cuts = ""
        _, src = c10_harness(op, nm, shapes, t, to, conv, cuts)
        if t == T and (len(shapes) == 3 or any(x.startswith("c:") for x in shapes)):
            src = src.replace(" kind=main", " kind=main optional=1", 1)
        out += src
    return {"c10_op.rs": out}


# ------------------------------------------------------------------------------------
# C03: descriptors (full usize) and dispatcher (n <= 6) per operator
# ------------------------------------------------------------------------------------

OPS = {
    "OPERATOR_MAP": ["==", "!=", "===", "!==", "!", "!!", "<", "<=", ">", ">=", "+", "-", "*", "/", "%",
                     "max", "min", "merge", "in", "cat", "substr", "log"],
    "DATA_OPERATOR_MAP": ["var", "missing", "missing_some"],
    "LAZY_OPERATOR_MAP": ["if", "?:", "or", "and", "map", "filter", "reduce", "all", "some", "none"],
}
# documented (min, max) operand counts, max 99 = unbounded (statement of C03)
ARITY = {"==": (2, 2), "!=": (2, 2), "===": (2, 2), "!==": (2, 2), "/": (2, 2), "%": (2, 2), "in": (2, 2), "map": (2, 2), "filter": (2, 2),
         "all": (2, 2), "some": (2, 2), "none": (2, 2), "missing_some": (2, 2), "<": (2, 3), "<=": (2, 3), ">": (2, 3), ">=": (2, 3),
         "substr": (2, 3), "reduce": (3, 3), "!": (1, 1), "!!": (1, 1), "log": (1, 1), "-": (1, 2), "var": (0, 2), "*": (1, 99),
         "max": (1, 99), "min": (1, 99), "and": (1, 99), "or": (1, 99), "+": (0, 99), "cat": (0, 99), "merge": (0, 99),
         "missing": (0, 99), "if": (0, 99), "?:": (0, 99)}
OPNAME = {"==": "eq", "!=": "ne", "===": "seq", "!==": "sne", "!": "not", "!!": "bool", "<": "lt", "<=": "lte",
          ">": "gt", ">=": "gte", "+": "add", "-": "sub", "*": "mul", "/": "div", "%": "mod", "?:": "ternary"}


def opid(o):
    return OPNAME.get(o, o)


def gen_c03(tier):
    out = prelude("c03_op.rs")
    allops = [(t, o) for t in OPS for o in OPS[t]]
    # descriptors: groups of 6 operators per harness, len over the full usize
    for gi in range(0, len(allops), 6):
        grp = allops[gi:gi + 6]
        body = ""
        for (t, o) in grp:
            body += '    check_descriptor(&%s.get("%s").unwrap().num_params, "%s", len);\n' % (t, o, o)
        out += '''
//@ harness: c03_desc_%(i)d tier=quick timeout=600 kind=main
//@ encodes: NumParams::is_valid_len, NumParams::check_len, NumParams::can_accept_unary, table entries %(ops)s
//@ bound: operand count = every usize (2^64 values); acceptance == documented arity set
#[cfg_attr(kani, kani::proof)]
#[cfg_attr(kani, kani::unwind(14))]
#[cfg_attr(kani, kani::stub(std::fmt::format, stub_format))]
#[cfg_attr(verif_replay, test)]
pub fn c03_desc_%(i)d() {
    let len = in_usize::<1>();
    vshow!("len = {}", len);
%(body)s}
''' % dict(i=gi // 6, ops=" ".join(o for _, o in grp), body=body)
    # dispatcher: one harness per (operator, concrete operand count) and per (operator, bare operand shape)
    quick_arr = {("==", 1), ("==", 2), ("max", 0), ("var", 3), ("reduce", 3), ("!", 2), ("<", 4)}
    quick_una = {("!", 2), ("!", 0), ("==", 1), ("var", 3), ("if", 2)}
    tymap = {"OPERATOR_MAP": "Operator", "DATA_OPERATOR_MAP": "DataOperator", "LAZY_OPERATOR_MAP": "LazyOperator"}
    for (t, o) in allops:
        lo, hi = ARITY[o]
        wanted = {max(lo - 1, 0), lo, min(hi, 6), min(hi + 1, 6)} | {n for (oo, n) in quick_arr if oo == o}
        for n in sorted(wanted):
            tr = "quick" if (o, n) in quick_arr else "thorough"
            out += '''
//@ harness: c03_array_%(id)s_%(n)d tier=%(tier)s timeout=900 kind=main mem=8
//@ encodes: op::op_from_map::<%(ty)s>, NumParams::check_len, NumParams::can_accept_unary, %(t)s["%(o)s"]
//@ bound: rule {"%(o)s": [b1..b%(n)d]} with %(n)d literal operands: accepted iff %(n)d is a documented count; operands passed on by pointer identity, in order
#[cfg_attr(kani, kani::proof)]
#[cfg_attr(kani, kani::unwind(%(unw)d))]
#[cfg_attr(kani, kani::stub(std::fmt::format, stub_format))]
#[cfg_attr(verif_replay, test)]
pub fn c03_array_%(id)s_%(n)d() {
    dispatch_array(&%(t)s, "%(o)s", %(n)d);
}
''' % dict(id=opid(o), n=n, tier=tr, ty=tymap[t], t=t, o=o, unw=max(len(o) + 2, n + 2, 4))
        for sh in range(4):
            tr = "quick" if (o, sh) in quick_una else "thorough"
            if tr == "thorough" and not (sh == 2 or (sh == 0 and o in ("var", "!", "cat", "merge", "!!", "max", "if")) or (sh == 3 and o == "var")):
                continue
            out += '''
//@ harness: c03_unary_%(id)s_%(sh)d tier=%(tier)s timeout=900 kind=main mem=8
//@ encodes: op::op_from_map::<%(ty)s>, NumParams::check_len, NumParams::can_accept_unary, %(t)s["%(o)s"]
//@ bound: rule {"%(o)s": x}, x a bare %(shape)s: exactly one operand, the value itself (pointer identity), iff arity 1 is documented
#[cfg_attr(kani, kani::proof)]
#[cfg_attr(kani, kani::unwind(%(unw)d))]
#[cfg_attr(kani, kani::stub(std::fmt::format, stub_format))]
#[cfg_attr(verif_replay, test)]
pub fn c03_unary_%(id)s_%(sh)d() {
    dispatch_unary(&%(t)s, "%(o)s", %(sh)d);
}
''' % dict(id=opid(o), sh=sh, tier=tr, ty=tymap[t], t=t, o=o, unw=max(len(o) + 2, 4),
           shape=["null", "Bool(any)", "Number(any i64)", '""'][sh])
    return {"c03_op.rs": out}


# ------------------------------------------------------------------------------------
# C07 / C08 / C09: operand-shape pair matrices for the js_op comparison helpers
# ------------------------------------------------------------------------------------

SCALARS = ["null", "bool", "i64", "u64", "f64"]
CONVS = ["strnum", "arrnum", "obj", "emptyarr"]       # string-likes met by a numeric partner (converted to number)
STRLIKES = ["str", "arr1", "obj", "emptyarr"]         # string-likes met by another string-like (compared as text)


def cmp_operand(kind, side, base=0):
    """(rust expr building the operand, rust expr of its text or None, rust expr of its Number()-value or None)"""
    a = base + (1 if side == "a" else 11)
    if kind in ("null", "bool", "i64", "u64", "f64"):
        return shape_expr(kind, a), None, "ref_num(&%s)" % side
    if kind == "strnum":      # a string whose JS numeric value is the oracle R
        return "Value::String(string_meaning(r_or))", None, None
    if kind == "arrnum":      # an array whose text has numeric value R
        return "Value::Array(vec![Value::String(string_meaning(r_or))])", None, None
    if kind == "str":
        return ("{ t%s = in_txt2::<%d, %d, %d>(); Value::String(txt_string(t%s)) }" % (side, a, a + 1, a + 2, side),
                "t%s" % side, None)
    if kind == "arr1":        # an array whose text is the 1-char oracle string
        ch = "TS_A" if side == "a" else "TS_B"
        return ("{ t%s = txt1(unsafe { %s }); Value::Array(vec![Value::String(str1(unsafe { %s }))]) }" % (side, ch, ch),
                "t%s" % side, None)
    if kind == "obj":         # text "[object Object]": longer than any Txt; handled by the generator
        return "Value::Object(serde_json::Map::new())", "OBJ", None
    if kind == "emptyarr":
        return "{ t%s = txt0(); Value::Array(Vec::new()) }" % side, "t%s" % side, None
    raise ValueError(kind)


def ccat(kind):
    return {"null": "N", "bool": "M", "i64": "M", "u64": "M", "f64": "M", "strnum": "S", "str": "S"}.get(kind, "O")


def cmp_block(prop, ka, kb, base=0):
    ea, ta, na = cmp_operand(ka, "a", base)
    eb, tb, nb = cmp_operand(kb, "b", base)
    ca, cb = ccat(ka), ccat(kb)
    pre = ""
    # numeric meaning of fixed-text string-likes is a corpus fact (c07_s2n_corpus): "[object Object]" -> NaN, "" -> 0
    for k in (ka, kb):
        if k == "obj" and (na or nb):
            pre += "        assume(r_or.is_none());\n"
        if k == "emptyarr" and (na or nb):
            pre += "        assume(r_or.map(f64::to_bits) == Some(0.0f64.to_bits()));\n"
    numeric_a, numeric_b = na is not None, nb is not None
    if prop == "C07":
        if ca == "N" and cb == "N":
            exp = "true"
        elif ca == "N" or cb == "N":
            exp = "false"
        elif numeric_a and numeric_b:
            exp = "%s == %s" % (na, nb)
        elif numeric_a or numeric_b:
            f = na if numeric_a else nb
            exp = "r_or.map(|r| %s == r).unwrap_or(false)" % f
        elif ca == "O" and cb == "O":
            exp = "false"
        elif ta == "OBJ" or tb == "OBJ":
            exp = "false"      # "[object Object]" (15 chars) never equals a text of <= 2 chars
        else:
            exp = "txt_eq(%s, %s)" % (ta, tb)
        calls = '''        let got = js_op::abstract_eq(&a, &b);
        let got_rev = js_op::abstract_eq(&b, &a);
        let got_ne = js_op::abstract_ne(&a, &b);
        vshow!("{:?} == {:?} -> {} (expected {})", a, b, got, exp);
        assert!(got == exp, "C07: == differs from ECMAScript abstract equality");
        assert!(got_rev == exp, "C07: == is not symmetric");
        assert!(got_ne == !exp, "C07: != is not the negation of ==");
'''
    else:  # C09
        if numeric_a and numeric_b:
            lt, lte = "%s < %s" % (na, nb), "%s <= %s" % (na, nb)
        elif numeric_a:
            lt, lte = "r_or.map(|r| %s < r).unwrap_or(false)" % na, "r_or.map(|r| %s <= r).unwrap_or(false)" % na
        elif numeric_b:
            lt, lte = "r_or.map(|r| r < %s).unwrap_or(false)" % nb, "r_or.map(|r| r <= %s).unwrap_or(false)" % nb
        elif ta == "OBJ" and tb == "OBJ":
            lt, lte = "false", "true"
        elif ta == "OBJ":     # "[object Object]" vs t (t <= 2 chars, never equal to it)
            lt, lte = "txt_cmp_obj(tb) > 0", "txt_cmp_obj(tb) > 0"
        elif tb == "OBJ":
            lt, lte = "txt_cmp_obj(ta) < 0", "txt_cmp_obj(ta) < 0"
        else:
            lt, lte = "txt_cmp(%s, %s) < 0" % (ta, tb), "txt_cmp(%s, %s) <= 0" % (ta, tb)
        exp = "(%s, %s)" % (lt, lte)
        calls = '''        let got_lt = js_op::abstract_lt(&a, &b);
        let got_gt = js_op::abstract_gt(&b, &a);
        let got_lte = js_op::abstract_lte(&a, &b);
        let got_gte = js_op::abstract_gte(&b, &a);
        vshow!("{:?} ? {:?}: lt={} lte={} (expected {:?})", a, b, got_lt, got_lte, exp);
        assert!(got_lt == exp.0, "C09: a < b differs from ECMAScript");
        assert!(got_gt == exp.0, "C09: b > a differs from a < b");
        assert!(got_lte == exp.1, "C09: a <= b differs from ECMAScript (less or equal after conversion)");
        assert!(got_gte == exp.1, "C09: b >= a differs from a <= b");
'''
    scalar_only = numeric_a and numeric_b or (ca == "N" and numeric_b) or (cb == "N" and numeric_a) or (ca == "N" and cb == "N")
    post = ""
    if ka in SCALARS and kb in SCALARS:
        post = '        assert!(unsafe { S2N_CALLS } == 0, "string-to-number conversion used for a pair without strings");\n'
    return '''    {
        let mut ta = txt0();
        let mut tb = txt0();
        let a = %(ea)s;
        let b = %(eb)s;
        unsafe {
            TS_PTR_A = &a;
            TS_PTR_B = &b;
            S2N_CALLS = 0;
        }
%(pre)s        let exp = %(exp)s;
%(calls)s%(post)s        std::mem::forget(a);
        std::mem::forget(b);
    }
''' % dict(ea=ea, eb=eb, pre=pre, exp=exp, calls=calls, post=post)


CMP_PRELUDE = '''//! %(prop)s harnesses (generated) - child module of `op` (staged copy only).
#![allow(unused)]
use super::*;
use crate::verif_common::*;
use crate::{vcover, vshow};
use crate::js_op;
use serde_json::{Map, Number, Value};

/// Number()-value of a Null / Bool / Number operand (reference)
fn ref_num(v: &Value) -> f64 {
    match v {
        Value::Null => 0.0,
        Value::Bool(b) => if *b { 1.0 } else { 0.0 },
        Value::Number(n) => n.as_f64().unwrap(),
        _ => { assert!(false, "not a numeric operand"); 0.0 }
    }
}
fn text_of(v: &Value) -> String {
    match v {
        Value::String(s) => s.clone(),
        _ => { assert!(false, "not a string operand"); String::new() }
    }
}
/// lexicographic comparison by code point (reference): -1 / 0 / 1
fn cmp_text(a: &String, b: &String) -> i32 {
    let mut ia = a.chars();
    let mut ib = b.chars();
    let mut k = 0;
    while k < 16 {
        match (ia.next(), ib.next()) {
            (None, None) => return 0,
            (None, Some(_)) => return -1,
            (Some(_), None) => return 1,
            (Some(x), Some(y)) => {
                if (x as u32) < (y as u32) { return -1; }
                if (x as u32) > (y as u32) { return 1; }
            }
        }
        k += 1;
    }
    0
}
'''


def cmp_harness(prop, name, pairs, tier, timeout, unwind=20):
    blocks = "".join(cmp_block(prop, a, b, 20 * i) for i, (a, b) in enumerate(pairs))
    doc = "; ".join("(%s, %s)" % (sdoc(a), sdoc(b)) for a, b in pairs)
    fns = ("js_op::abstract_eq, js_op::abstract_ne" if prop == "C07" else
           "js_op::abstract_lt, js_op::abstract_gt, js_op::abstract_lte, js_op::abstract_gte, js_op::to_primitive")
    return '''
//@ harness: %(name)s tier=%(tier)s timeout=%(timeout)d kind=main mem=%(mem)d
//@ encodes: %(fns)s (callees str_to_number / to_string replaced by oracles: dispatch modulo conversion)
//@ bound: operand pairs %(doc)s; payloads fully symbolic; string meaning R = any non-NaN double or non-numeric
#[cfg_attr(kani, kani::proof)]
#[cfg_attr(kani, kani::unwind(%(unwind)d))]
#[cfg_attr(kani, kani::stub(std::fmt::format, stub_format))]
#[cfg_attr(kani, kani::stub(crate::js_op::str_to_number, s2n_oracle))]
#[cfg_attr(kani, kani::stub(crate::js_op::to_string, to_string_oracle))]
#[cfg_attr(verif_replay, test)]
pub fn %(name)s() {
    let r_or = oracle_setup::<900, 901, 902, 903>();
%(blocks)s}
''' % dict(name=name, tier=tier, timeout=timeout, fns=fns, doc=doc, unwind=unwind, blocks=blocks,
           mem=6 if any(a == "str" or b == "str" for a, b in pairs) else 3)


def cmp_matrix(prop, pfx):
    """returns list of (name, pairs, tier)"""
    hs = []
    chunk = 5 if pfx == "c07" else 2
    # scalar x scalar: harnesses per left shape
    for a in SCALARS:
        ps = [(a, b) for b in SCALARS]
        for i in range(0, len(ps), chunk):
            hs.append(("%s_sc_%s_%d" % (pfx, a, i // chunk), ps[i:i + chunk], "quick"))  # every scalar pair incl. (i64,i64), (u64,u64) is quick: seed C09-w3m1 (i64 fast path in abstract_lt) was missed while the i64/u64 left shapes were thorough-only
    # scalar x converted string-like, both orders
    for a in SCALARS:
        ps = [(a, b) for b in CONVS] + [(b, a) for b in CONVS]
        for i in range(0, len(ps), chunk):
            hs.append(("%s_cv_%s_%d" % (pfx, a, i // chunk), ps[i:i + chunk],
                       "quick" if a in ("null", "i64", "bool") else "thorough"))
    # string-like x string-like
    for a in STRLIKES:
        for b in STRLIKES:
            q = (a, b) in (("str", "str"), ("str", "arr1"), ("arr1", "str"), ("obj", "obj"), ("arr1", "emptyarr"), ("str", "obj"))
            hs.append(("%s_sl_%s_%s" % (pfx, a, b), [(a, b)], "quick" if q else "thorough"))
    return hs


def gen_c07(tier):
    out = CMP_PRELUDE % dict(prop="C07")
    for name, pairs, t in cmp_matrix("C07", "c07"):
        out += cmp_harness("C07", name, pairs, t, 900)
    out += prelude("c07_extra.rs")
    out += s2n_corpus_harnesses("C07", "c07", "C07: string-to-number differs from the JavaScript rules")
    return {"c07_op.rs": out}


def gen_c09(tier):
    out = CMP_PRELUDE % dict(prop="C09")
    for name, pairs, t in cmp_matrix("C09", "c09"):
        out += cmp_harness("C09", name, pairs, t, 900)
    out += prelude("c09_extra.rs")
    return {"c09_op.rs": out}


# ------------------------------------------------------------------------------------
# text -> number corpora (R6b): the real conversion on constant strings, expectations from oracle_js
# ------------------------------------------------------------------------------------

def rust_str(s):
    out = '"'
    for ch in s:
        o = ord(ch)
        if ch in '"\\':
            out += "\\" + ch
        elif 32 <= o < 127:
            out += ch
        else:
            out += "\\u{%x}" % o
    return out + '"'


def s2n_corpus_harnesses(prop, pfx, msg, group=5, quick_groups=99):
    import oracle_js
    oracle_js.selftest()
    out = ""
    corpus = oracle_js.S2N_CORPUS
    for gi in range(0, len(corpus), group):
        grp = corpus[gi:gi + group]
        body = ""
        for s in grp:
            exp = oracle_js.rust_f64(oracle_js.string_to_number(s))
            body += '''    {
        let got = js_op::str_to_number(%(lit)s);
        let exp: Option<f64> = %(exp)s;
        vshow!("Number({:?}) = {:?}, expected {:?}", %(lit)s, got, exp);
        assert!(got == exp, "%(msg)s");
    }
''' % dict(lit=rust_str(s), exp=exp, msg=msg)
        out += '''
//@ harness: %(pfx)s_s2n_corpus_%(i)d tier=%(tier)s timeout=900 kind=main mem=6
//@ encodes: js_op::str_to_number::<&str> (real, incl. char trimming, radix prefixes and core dec2flt)
//@ bound: corpus strings %(doc)s. NOTE: constant-folded symbolic execution of the compiled code on each string (exact evaluation by the engine; no quantifier over strings)
#[cfg_attr(kani, kani::proof)]
#[cfg_attr(kani, kani::unwind(80))]
#[cfg_attr(kani, kani::stub(std::fmt::format, stub_format))]
#[cfg_attr(verif_replay, test)]
pub fn %(pfx)s_s2n_corpus_%(i)d() {
%(body)s}
''' % dict(pfx=pfx, i=gi // group, tier="quick" if gi // group < quick_groups else "thorough",
           doc=" ".join(repr(s) for s in grp).replace("\n", " "), body=body)
    return out


# ------------------------------------------------------------------------------------
# C16: substr per concrete length / arity; cat per operand shape pair
# ------------------------------------------------------------------------------------
CAT_SHAPES = ["str", "null", "bool", "int", "emptyarr", "arrnull", "obj", "arr2", "arrint"]


def gen_c16(tier):
    out = prelude("c16_op.rs")
    for n in range(0, 5):
        for with_len in (False, True):
            if n > 2:
                continue
            q = n <= 1
            out += '''
//@ harness: c16_substr_n%(n)d_%(k)d tier=%(tier)s timeout=%(to)d kind=main mem=%(mem)d%(opt)s
//@ cuts: strcount
//@ encodes: op::string::substr
//@ bound: string of %(n)d characters each of symbolic UTF-8 width (a / e-acute / euro / emoji), start = every i64%(l)s: result is the run of characters [start,end) of the character-based reference (negative start from the end, negative length stops before the end, clamping), decided through its byte length under symbolic widths
#[cfg_attr(kani, kani::proof)]
#[cfg_attr(kani, kani::unwind(%(unw)d))]
#[cfg_attr(kani, kani::stub(std::fmt::format, stub_format))]
#[cfg_attr(verif_replay, test)]
pub fn c16_substr_n%(n)d_%(k)d() {
    substr_case(%(n)d, %(wl)s);
}
''' % dict(n=n, k=3 if with_len else 2, tier="quick" if q else "thorough", mem=(8 if n == 0 else 24) if n < 2 else 28, to=900, opt="" if n < 2 else " optional=1",
           l=", length = every i64" if with_len else "", unw=max(4 * n + 2, 3), wl="true" if with_len else "false")
    quick_pairs = {(0, 1), (1, 2), (6, 2), (2, 0), (0, 6)}
    for a in range(9):
        out += '''
//@ harness: c16_cat1_%(sa)s tier=%(tier)s timeout=%(to)d kind=main mem=%(mem)d%(opt)s
//@ encodes: op::string::cat, js_op::to_string
//@ bound: cat of one operand of shape %(sa)s (strings of 1 symbolic char, ints -99..999) and of no operands
#[cfg_attr(kani, kani::proof)]
#[cfg_attr(kani, kani::unwind(34))]
#[cfg_attr(kani, kani::stub(std::fmt::format, stub_format))]
#[cfg_attr(verif_replay, test)]
pub fn c16_cat1_%(sa)s() {
    cat1(%(a)d);
}
''' % dict(sa=CAT_SHAPES[a], a=a, tier="quick" if a in (0, 1, 2, 6) else "thorough",
           to=600 if a in (0, 1, 2, 6) else 900, mem=8 if a in (0, 1, 2, 6) else 20, opt="" if a in (0, 1, 2, 6) else " optional=1")
        for b in range(9):
            cheap = a in (0, 1, 2, 6) and b in (0, 1, 2, 6)
            if not cheap and (a, b) not in ((3, 0), (5, 6)):
                continue
            out += '''
//@ harness: c16_cat2_%(sa)s_%(sb)s tier=%(tier)s timeout=%(to)d kind=main mem=%(mem)d%(opt)s
//@ encodes: op::string::cat, js_op::to_string
//@ bound: cat of two operands of shapes (%(sa)s, %(sb)s) (strings of 1 symbolic char, ints -99..999): concatenation of the JavaScript string forms
#[cfg_attr(kani, kani::proof)]
#[cfg_attr(kani, kani::unwind(34))]
#[cfg_attr(kani, kani::stub(std::fmt::format, stub_format))]
#[cfg_attr(verif_replay, test)]
pub fn c16_cat2_%(sa)s_%(sb)s() {
    cat2(%(a)d, %(b)d);
}
''' % dict(sa=CAT_SHAPES[a], sb=CAT_SHAPES[b], a=a, b=b, tier="quick" if (a, b) in quick_pairs else "thorough",
           to=600 if (a, b) in quick_pairs else 900, mem=8 if (a, b) in quick_pairs else 20,
           opt="" if ((a, b) in quick_pairs or (a in (0, 1, 2, 6) and b in (0, 1, 2, 6))) else " optional=1")
    return {"c16_op.rs": out}


# ------------------------------------------------------------------------------------
# C05: if / and / or per concrete operand count
# ------------------------------------------------------------------------------------

def gen_c05(tier):
    out = prelude("c05_op.rs")
    tmpl = '''
//@ harness: %(name)s tier=%(tier)s timeout=%(to)d kind=main mem=%(mem)d
//@ encodes: %(enc)s, op::logic::truthy, Raw::evaluate (Parsed::from_value replaced by its recording twin: literals parse to Raw, C02)
//@ bound: %(k)d literal operands (conditions Bool / i64, branches i64, payloads symbolic): returned operand == reference; the operands parsed-and-evaluated are exactly the reference sequence (conditions left to right up to the deciding one, then its branch)
//@ cuts: maps
#[cfg_attr(kani, kani::proof)]
#[cfg_attr(kani, kani::unwind(%(unw)d))]
#[cfg_attr(kani, kani::stub(std::fmt::format, stub_format))]
#[cfg_attr(kani, kani::stub(crate::value::Parsed::from_value, crate::value::verif_c05_value::RecParsed::from_value))]
#[cfg_attr(verif_replay, test)]
pub fn %(name)s() {
    %(call)s;
}
'''
    for k in range(0, 8):
        out += tmpl % dict(name="c05_if_%d" % k, tier="quick", to=900, mem=8, k=k,
                           enc="op::logic::if_", unw=14, call="if_case(%d)" % k)
    for k in range(1, 6):
        for (nm, flag) in (("and", "true"), ("or", "false")):
            out += tmpl % dict(name="c05_%s_%d" % (nm, k), tier="quick", to=900, mem=8, k=k,
                               enc="op::logic::%s" % nm, unw=14, call="andor_case(%d, %s)" % (k, flag))
    return {"c05_op.rs": out}


# ------------------------------------------------------------------------------------
# C02: near-miss families per operator name; object literal shapes
# ------------------------------------------------------------------------------------

def gen_c02(tier):
    out = prelude("c02_op.rs")
    allops = [o for t in OPS for o in OPS[t]]
    kinds = ["subst", "insert", "delete", "caseflip"]
    quick = {("var", 1), ("var", 3), ("if", 1), ("missing", 2), ("missing_some", 0), ("==", 1), ("max", 3), ("?:", 0), ("substr", 2), ("!", 1), ("none", 3), ("in", 1)}
    for o in allops:
        for ki, kn in enumerate(kinds):
            if kn == "caseflip" and not any(c.isalpha() for c in o):
                continue
            if kn == "delete" and len(o) == 1:
                pass
            out += '''
//@ harness: c02_near_%(id)s_%(kn)s tier=%(tier)s timeout=1200 kind=main mem=4
//@ encodes: OPERATOR_MAP, LAZY_OPERATOR_MAP, DATA_OPERATOR_MAP (phf lookup incl. SipHash over the edited key)
//@ bound: every key obtained from "%(o)s" by one %(kn)s at a symbolic position with a symbolic ASCII byte: recognised iff it is itself a documented name
#[cfg_attr(kani, kani::proof)]
#[cfg_attr(kani, kani::unwind(%(unw)d))]
#[cfg_attr(verif_replay, test)]
pub fn c02_near_%(id)s_%(kn)s() {
    near_miss("%(o)s", %(ki)d);
}
''' % dict(id=opid(o), kn=kn, tier="quick" if (o, ki) in quick else "thorough", o=o, ki=ki, unw=len(o) + 4)
    docs = ["{}", '{"a": n}', '{"var": "a", "x": null} (two keys, one an operator name)', '{"Var": "a"} (case variant)',
            '{" var": "a"} (leading whitespace)', '{"var ": "a"} (trailing whitespace)', '{"i": []} (prefix of "if"/"in")']
    for k in (0, 1, 2, 3):
        out += '''
//@ harness: c02_literal_object_%(k)d tier=%(tier)s timeout=900 kind=main mem=24%(opt)s
//@ encodes: Parsed::from_value, Operation/LazyOperation/DataOperation::from_value, op::op_from_map x3 tables, Raw::evaluate
//@ bound: object %(doc)s: parsed as Raw and evaluates to the very same value (pointer identity), whatever the data
#[cfg_attr(kani, kani::proof)]
#[cfg_attr(kani, kani::unwind(8))]
#[cfg_attr(kani, kani::stub(std::fmt::format, stub_format))]
#[cfg_attr(verif_replay, test)]
pub fn c02_literal_object_%(k)d() {
    object_case(%(k)d);
}
''' % dict(k=k, doc=docs[k], tier="quick" if k == 0 else "thorough", opt="" if k == 0 else " optional=1")
    nonop = [("OPERATOR_MAP", "Operator", "Cat", "q"), ("LAZY_OPERATOR_MAP", "LazyOperator", " if", "q"), ("DATA_OPERATOR_MAP", "DataOperator", "var ", "q"),
             ("OPERATOR_MAP", "Operator", "a", "t"), ("OPERATOR_MAP", "Operator", "=", "t"), ("LAZY_OPERATOR_MAP", "LazyOperator", "IF", "t"),
             ("LAZY_OPERATOR_MAP", "LazyOperator", "reduc", "t"), ("DATA_OPERATOR_MAP", "DataOperator", "vars", "t"), ("DATA_OPERATOR_MAP", "DataOperator", "Missing", "t"),
             ("OPERATOR_MAP", "Operator", "var", "t"), ("LAZY_OPERATOR_MAP", "LazyOperator", "max", "t"), ("DATA_OPERATOR_MAP", "DataOperator", "if", "t")]
    for i, (t, ty, key, q) in enumerate(nonop):
        out += '''
//@ harness: c02_nonop_%(i)d tier=%(tier)s timeout=900 kind=main mem=8
//@ encodes: op::op_from_map::<%(ty)s>, %(t)s
//@ bound: single-key object {%(key)r: [n]}: not dispatched by this table (Ok(None)), so Parsed::from_value falls through to Raw
#[cfg_attr(kani, kani::proof)]
#[cfg_attr(kani, kani::unwind(%(unw)d))]
#[cfg_attr(kani, kani::stub(std::fmt::format, stub_format))]
#[cfg_attr(verif_replay, test)]
pub fn c02_nonop_%(i)d() {
    not_dispatched(&%(t)s, "%(key)s");
}
''' % dict(i=i, tier="quick" if q == "q" else "thorough", ty=ty, t=t, key=key, unw=max(len(key) + 2, 4))
    return {"c02_op.rs": out}


# ------------------------------------------------------------------------------------
# C15: `in` over number representation pairs; merge per operand list shape
# ------------------------------------------------------------------------------------

def gen_c15(tier):
    out = prelude("c15_op.rs")
    reps = ["i64", "u64", "f64"]
    for a in range(3):
        for b in range(3):
            out += '''
//@ harness: c15_in_num_%(ra)s_%(rb)s tier=%(tier)s timeout=900 kind=main mem=8
//@ encodes: op::array::in_, op::array::deep_eq, op::array::number_eq
//@ bound: needle Number(any %(ra)s), haystack [Bool, Number(any %(rb)s)]: member iff numerically equal, whatever the spelling (1 / 1.0 / u64)
#[cfg_attr(kani, kani::proof)]
#[cfg_attr(kani, kani::unwind(6))]
#[cfg_attr(kani, kani::stub(std::fmt::format, stub_format))]
#[cfg_attr(verif_replay, test)]
pub fn c15_in_num_%(ra)s_%(rb)s() {
    in_numbers(%(a)d, %(b)d);
}
''' % dict(ra=reps[a], rb=reps[b], a=a, b=b, tier="quick" if (a, b) in ((0, 2), (2, 0), (1, 0), (2, 2), (0, 0)) else "thorough")
    docs = ["no operands", "[x]: one non-array operand", "[[y, z]]", "[x, [y, z]]", "[[y, z], [], null]", "[[y, z], x, [y, z]]"]
    for k in range(6):
        out += '''
//@ harness: c15_merge_%(k)d tier=%(tier)s timeout=%(to)d kind=main mem=%(mem)d%(opt)s
//@ encodes: op::array::merge
//@ bound: operand list %(doc)s (payloads symbolic): arrays spliced one level, other values kept as one element, order preserved, length = sum
#[cfg_attr(kani, kani::proof)]
#[cfg_attr(kani, kani::unwind(8))]
#[cfg_attr(kani, kani::stub(std::fmt::format, stub_format))]
#[cfg_attr(kani, kani::stub(<serde_json::Value as std::clone::Clone>::clone, value_clone_model))]
#[cfg_attr(verif_replay, test)]
pub fn c15_merge_%(k)d() {
    merge_case(%(k)d);
}
''' % dict(k=k, doc=docs[k], tier="quick" if k in (0, 1) else "thorough", to=600 if k < 2 else 900, mem=8 if k < 2 else 24, opt="" if k < 2 else " optional=1")
    return {"c15_op.rs": out}


# ------------------------------------------------------------------------------------
# C01: totality - helpers per scalar shape pair, operator closures per accepted arity, substr extremes
# ------------------------------------------------------------------------------------

def gen_c01(tier):
    out = prelude("c01_op.rs")
    names = ["null", "bool", "i64", "u64", "f64"]
    quick_pairs = {(4, 4), (2, 3), (1, 4), (0, 2), (3, 1), (2, 2)}
    for a in range(5):
        for b in range(5):
            out += '''
//@ harness: c01_helpers_%(na)s_%(nb)s tier=%(tier)s timeout=400 kind=main mem=8
//@ encodes: every public js_op helper: abstract_eq/ne/lt/gt/lte/gte, strict_eq/ne, abstract_minus/div/mod, to_negative, to_number, parse_float, abstract_max/min, parse_float_add/mul (vectors of 0 and 2)
//@ bound: operands (%(na)s, %(nb)s) with every payload: each helper returns, no panic / overflow / division trap
#[cfg_attr(kani, kani::proof)]
#[cfg_attr(kani, kani::unwind(5))]
#[cfg_attr(kani, kani::stub(std::fmt::format, stub_format))]
#[cfg_attr(kani, kani::stub(crate::js_op::to_string, to_string_opaque))]
#[cfg_attr(kani, kani::stub(crate::js_op::str_to_number, s2n_unreachable))]
#[cfg_attr(verif_replay, test)]
pub fn c01_helpers_%(na)s_%(nb)s() {
    helpers_case(%(a)d, %(b)d);
}
''' % dict(na=names[a], nb=names[b], a=a, b=b, tier="quick" if (a, b) in quick_pairs else "thorough")
    import oracle_js
    corpus = oracle_js.S2N_CORPUS + oracle_js.TOTALITY_EXTRA
    for gi in range(0, len(corpus), 12):
        grp = corpus[gi:gi + 12]
        body = "".join('    let _ = js_op::str_to_number(%s);\n' % rust_str(x) for x in grp)
        out += '''
//@ harness: c01_s2n_total_%(i)d tier=quick timeout=900 kind=main mem=6
//@ encodes: js_op::str_to_number::<&str> incl. parse_radix_digits and core dec2flt
//@ bound: corpus strings %(doc)s: returns, no panic / arithmetic overflow (constant-folded execution per string)
#[cfg_attr(kani, kani::proof)]
#[cfg_attr(kani, kani::unwind(80))]
#[cfg_attr(kani, kani::stub(std::fmt::format, stub_format))]
#[cfg_attr(verif_replay, test)]
pub fn c01_s2n_total_%(i)d() {
%(body)s}
''' % dict(i=gi // 12, doc=" ".join(repr(x)[:24] for x in grp).replace("\n", " "), body=body)
    eager = OPS["OPERATOR_MAP"]
    quick_ops = {"<", "substr", "-", "/", "%", "in", "!", "max", "+", "cat", "merge", "==="}
    for o in eager:
        if o == "log":
            continue     # println! (stdout lock, formatting) is outside what CBMC encodes
        out += '''
//@ harness: c01_arity_%(id)s tier=%(tier)s timeout=1200 kind=main mem=12
//@ encodes: OPERATOR_MAP["%(o)s"] closure / operator function, NumParams::is_valid_len
//@ bound: called with exactly n integer operands (any i64) for every n in 0..4 that the operator's OWN descriptor accepts: no out-of-range operand access, no panic
//@ cuts: strcount
#[cfg_attr(kani, kani::proof)]
#[cfg_attr(kani, kani::unwind(24))]
#[cfg_attr(kani, kani::stub(std::fmt::format, stub_format))]
#[cfg_attr(kani, kani::stub(crate::js_op::to_string, to_string_opaque))]
#[cfg_attr(kani, kani::stub(<serde_json::Value as std::clone::Clone>::clone, value_clone_model))]
#[cfg_attr(verif_replay, test)]
pub fn c01_arity_%(id)s() {
    arity_index_case("%(o)s");
}
''' % dict(id=opid(o), o=o, tier="quick" if o in quick_ops else "thorough")
    return {"c01_op.rs": out}


# ------------------------------------------------------------------------------------
# C11: path splitting on EVERY path of <= 3 characters over {a . \ 1} (85 constant strings: the engine folds each
# execution; exhaustive for that alphabet and length, no quantifier over longer paths)
# ------------------------------------------------------------------------------------

def ref_split(s):
    out, cur, esc = [], "", False
    for c in s:
        if esc:
            cur += c
            esc = False
        elif c == "\\":
            esc = True
        elif c == ".":
            out.append(cur)
            cur = ""
        else:
            cur += c
    if cur:
        out.append(cur)
    return out


def gen_c11(tier):
    import itertools
    out = prelude("c11_data.rs")
    alpha = ["a", ".", "\\", "1"]
    paths = [""]
    for n in (1, 2, 3):
        paths += ["".join(t) for t in itertools.product(alpha, repeat=n)]
    extra = ["a.b.c", "a\\.b.c", "a..b", ".a.", "a\\\\.b", "é.€", "a.b\\", "0.-1.x"]
    group = 15
    allp = paths + extra
    for gi in range(0, len(allp), group):
        grp = allp[gi:gi + group]
        body = ""
        for ptxt in grp:
            exp = ref_split(ptxt)
            body += "    {\n        let parts = split_with_escape(%s, '.');\n" % rust_str(ptxt)
            body += '        assert!(parts.len() == %d, "C11: path split into a different number of components");\n' % len(exp)
            for i, e in enumerate(exp):
                body += '        assert!(parts[%d] == %s, "C11: path component differs from the reference");\n' % (i, rust_str(e))
            body += "        std::mem::forget(parts);\n    }\n"
        out += '''
//@ harness: c11_split_corpus_%(i)d tier=quick timeout=900 kind=main mem=8
//@ encodes: op::data::split_with_escape
//@ bound: paths %(doc)s - part of ALL paths of <= 3 characters over {a . backslash 1} plus 8 longer ones; each is a constant-folded execution (exhaustive for that alphabet and length; no quantifier beyond it)
#[cfg_attr(kani, kani::proof)]
#[cfg_attr(kani, kani::unwind(12))]
#[cfg_attr(kani, kani::stub(std::fmt::format, stub_format))]
#[cfg_attr(verif_replay, test)]
pub fn c11_split_corpus_%(i)d() {
%(body)s}
''' % dict(i=gi // group, doc=" ".join(repr(x) for x in grp)[:300].replace("\n", " "), body=body)
    return {"c11_data.rs": out}
