"""Harness generators.  Each generator returns {file name: rust source}; the oracle in the generated text is
always a reference model written from the property statement (harness/*.rs preludes), never the code under test."""
import os

V = os.path.dirname(os.path.dirname(os.path.abspath(__file__)))


def prelude(name):
    return open(os.path.join(V, "harness", name)).read()


def shape_expr(kind, a, b=None):
    """Rust expression constructing an operand of a CONCRETE shape (R1) with symbolic payload from input IDs a (, b)."""
    if kind == "null":
        return "Value::Null"
    if kind == "bool":
        return "Value::Bool(in_bool::<%d>())" % a
    if kind == "i64":
        return "Value::Number(Number::from(in_i64::<%d>()))" % a
    if kind == "u64":
        return "Value::Number(Number::from(in_u64::<%d>()))" % a
    if kind == "f64":
        return "{ let f = in_f64::<%d>(); assume(f.is_finite()); Value::Number(Number::from_f64(f).unwrap()) }" % a
    if kind == "num":
        return "Value::Number(in_number::<%d, %d>())" % (a, b if b is not None else a + 50)
    if kind == "obj":
        return "Value::Object(serde_json::Map::new())"
    if kind == "emptyarr":
        return "Value::Array(Vec::new())"
    if kind == "emptystr":
        return "Value::String(String::new())"
    if kind.startswith("c:"):
        return "Value::Number(Number::from_f64(%s).unwrap())" % kind[2:]
    raise ValueError(kind)


SHAPE_DOC = {
    "null": "null", "bool": "Bool(any)", "i64": "Number(any i64)", "u64": "Number(any u64)",
    "f64": "Number(any finite f64 bit pattern)", "num": "Number(any repr, any payload)", "obj": "{}",
    "emptyarr": "[]", "emptystr": '""',
}


def sdoc(k):
    return SHAPE_DOC.get(k, "constant " + k[2:] if k.startswith("c:") else k)


def ident(k):
    return k.replace("c:", "k").replace(".", "p").replace("-", "m").replace("+", "")


STUB_FMT = "#[cfg_attr(kani, kani::stub(std::fmt::format, stub_format))]\n"


# ------------------------------------------------------------------------------------
# C10: arithmetic operators (G3 harnesses of the decomposition)
# ------------------------------------------------------------------------------------

def c10_harness(op, opname, shapes, tier, timeout, conv, cuts=""):
    n = len(shapes)
    name = "c10_%s_%s" % (opname, "_".join(ident(s) for s in shapes) if shapes else "none")
    lets = "".join("    let v%d = %s;\n" % (i, shape_expr(s, 10 * i + 1, 10 * i + 2)) for i, s in enumerate(shapes))
    items = ", ".join("&v%d" % i for i in range(n))
    forget = "".join("    std::mem::forget(v%d);\n" % i for i in range(n))
    refconv = "ref_to_number" if conv == "number" else "ref_parse_float"
    stubconv = ("crate::js_op::to_number, ref_to_number" if conv == "number"
                else "crate::js_op::parse_float, ref_parse_float")
    cs = ["%s(&v%d)" % (refconv, i) for i in range(n)]
    if op in ("-", "/", "%") and n == 2:
        exp = "match (%s, %s) { (Some(a), Some(b)) => Some(a %s b), _ => None }" % (cs[0], cs[1], op)
    elif op == "-" and n == 1:
        exp = "%s.map(|a| -1.0 * a)" % cs[0]
    elif op in ("+", "*"):
        init = "0.0" if op == "+" else "1.0"
        exp = "{ let mut acc: Option<f64> = Some(%s);\n" % init
        for c in cs:
            exp += "        acc = match (acc, %s) { (Some(t), Some(x)) => Some(t %s x), _ => None };\n" % (c, op)
        exp += "        acc }"
    elif op in ("max", "min"):
        cmpop = ">" if op == "max" else "<"
        init = "f64::NEG_INFINITY" if op == "max" else "f64::INFINITY"
        # reference: the greatest / least operand value (statement); identity only matters for n = 0, excluded by arity
        exp = "{ let mut acc: Option<f64> = Some(%s);\n" % init
        for c in cs:
            exp += "        acc = match (acc, %s) { (Some(t), Some(x)) => Some(if x %s t { x } else { t }), _ => None };\n" % (c, cmpop)
        exp += "        acc }"
    else:
        raise ValueError(op)
    doc = ", ".join(sdoc(s) for s in shapes) or "no operands"
    return name, '''
//@ harness: %(name)s tier=%(tier)s timeout=%(timeout)d kind=main
//@ encodes: OPERATOR_MAP["%(op)s"] closure and the js_op helper it calls (conversion callee replaced by its reference, G2; narrowing by a recorder, G1)
//@ bound: operands (%(doc)s): result == to_number_value(exact IEEE fold), error iff an operand is non-numeric
%(cuts)s#[cfg_attr(kani, kani::proof)]
#[cfg_attr(kani, kani::unwind(6))]
%(fmt)s#[cfg_attr(kani, kani::stub(%(stubconv)s))]
#[cfg_attr(kani, kani::stub(crate::value::to_number_value, tnv_record))]
#[cfg_attr(verif_replay, test)]
pub fn %(name)s() {
    tnv_setup();
%(lets)s    let mut items: Vec<&Value> = Vec::with_capacity(4);
%(pushes)s
    let r = table_op("%(op)s", &items);
    vshow!("{:?} {:?} = {:?}", "%(op)s", items, r);
    let exp: Option<f64> = %(exp)s;
    arith_check(&r, exp);
    std::mem::forget(r);
%(forget)s}
''' % dict(name=name, tier=tier, timeout=timeout, op=op, doc=doc, fmt=STUB_FMT, stubconv=stubconv,
           lets=lets, pushes="".join("    items.push(&v%d);\n" % i for i in range(n)), exp=exp, forget=forget,
           cuts=("//@ cuts: %s\n" % cuts) if cuts else "")


def gen_c10(tier):
    out = prelude("c10_op.rs")
    Q, T = "quick", "thorough"
    plan = [
        # (op, name, shapes, tier, timeout, conversion)
        ("-", "sub", ["f64", "f64"], Q, 400, "number"),
        ("-", "sub", ["i64", "u64"], Q, 400, "number"),
        ("-", "sub", ["null", "f64"], Q, 300, "number"),
        ("-", "sub", ["f64", "bool"], Q, 300, "number"),
        ("-", "sub", ["obj", "f64"], Q, 300, "number"),
        ("-", "sub", ["u64", "obj"], Q, 300, "number"),
        ("-", "sub", ["u64", "f64"], T, 400, "number"),
        ("-", "sub", ["f64", "i64"], T, 400, "number"),
        ("-", "sub", ["bool", "null"], T, 300, "number"),
        ("-", "sub", ["emptyarr", "emptystr"], T, 300, "number"),
        ("-", "neg", ["f64"], Q, 300, "number"),
        ("-", "neg", ["i64"], Q, 300, "number"),
        ("-", "neg", ["u64"], Q, 300, "number"),
        ("-", "neg", ["bool"], Q, 300, "number"),
        ("-", "neg", ["null"], Q, 300, "number"),
        ("-", "neg", ["obj"], Q, 300, "number"),
        ("/", "div", ["f64", "c:3.0"], Q, 400, "number"),
        ("/", "div", ["f64", "c:0.0"], Q, 300, "number"),
        ("/", "div", ["null", "f64"], Q, 300, "number"),
        ("/", "div", ["i64", "c:0.1"], T, 900, "number"),
        ("/", "div", ["c:-7.5", "u64"], T, 900, "number"),
        ("/", "div", ["bool", "bool"], Q, 300, "number"),
        ("/", "div", ["f64", "obj"], Q, 300, "number"),
        ("%", "mod", ["f64", "c:3.0"], Q, 900, "number"),
        ("%", "mod", ["c:7.5", "i64"], T, 900, "number"),
        ("%", "mod", ["null", "f64"], Q, 300, "number"),
        ("%", "mod", ["f64", "c:0.0"], Q, 300, "number"),
        ("%", "mod", ["obj", "f64"], Q, 300, "number"),
        ("+", "add", [], Q, 300, "float"),
        ("+", "add", ["f64"], Q, 300, "float"),
        ("+", "add", ["f64", "f64"], Q, 400, "float"),
        ("+", "add", ["i64", "u64"], Q, 400, "float"),
        ("+", "add", ["f64", "null"], Q, 300, "float"),
        ("+", "add", ["bool", "f64"], Q, 300, "float"),
        ("+", "add", ["i64", "f64", "u64"], T, 1200, "float"),
        ("+", "add", ["f64", "f64", "obj"], T, 600, "float"),
        ("*", "mul", ["f64"], Q, 300, "float"),
        ("*", "mul", ["f64", "c:3.0"], Q, 600, "float"),
        ("*", "mul", ["c:-7.5", "f64"], Q, 600, "float"),
        ("*", "mul", ["i64", "c:0.1"], T, 900, "float"),
        ("*", "mul", ["u64", "null"], Q, 300, "float"),
        ("*", "mul", ["f64", "c:2.0", "c:0.5"], T, 900, "float"),
        ("max", "max", ["f64"], Q, 300, "number"),
        ("max", "max", ["f64", "f64"], Q, 400, "number"),
        ("max", "max", ["i64", "u64", "f64"], Q, 600, "number"),
        ("max", "max", ["null", "f64", "bool"], T, 600, "number"),
        ("max", "max", ["f64", "obj"], Q, 300, "number"),
        ("min", "min", ["f64"], Q, 300, "number"),
        ("min", "min", ["f64", "f64"], Q, 400, "number"),
        ("min", "min", ["u64", "f64", "i64"], Q, 600, "number"),
        ("min", "min", ["bool", "null", "f64"], T, 600, "number"),
        ("min", "min", ["obj", "i64"], Q, 300, "number"),
    ]
    for (op, nm, shapes, t, to, conv) in plan:
        # error paths of the iterator folds drop a merged Result<f64, Error{Value}>: deallocation is not modelled there
        cuts = ""
        _, src = c10_harness(op, nm, shapes, t, to, conv, cuts)
        out += src
    return {"c10_op.rs": out}


# ------------------------------------------------------------------------------------
# C03: descriptors (full usize) and dispatcher (n <= 6) per operator
# ------------------------------------------------------------------------------------

OPS = {
    "OPERATOR_MAP": ["==", "!=", "===", "!==", "!", "!!", "<", "<=", ">", ">=", "+", "-", "*", "/", "%",
                     "max", "min", "merge", "in", "cat", "substr", "log"],
    "DATA_OPERATOR_MAP": ["var", "missing", "missing_some"],
    "LAZY_OPERATOR_MAP": ["if", "?:", "or", "and", "map", "filter", "reduce", "all", "some", "none"],
}
OPNAME = {"==": "eq", "!=": "ne", "===": "seq", "!==": "sne", "!": "not", "!!": "bool", "<": "lt", "<=": "lte",
          ">": "gt", ">=": "gte", "+": "add", "-": "sub", "*": "mul", "/": "div", "%": "mod", "?:": "ternary"}


def opid(o):
    return OPNAME.get(o, o)


def gen_c03(tier):
    out = prelude("c03_op.rs")
    allops = [(t, o) for t in OPS for o in OPS[t]]
    # descriptors: groups of 6 operators per harness, len over the full usize
    for gi in range(0, len(allops), 6):
        grp = allops[gi:gi + 6]
        body = ""
        for (t, o) in grp:
            body += '    check_descriptor(&%s.get("%s").unwrap().num_params, "%s", len);\n' % (t, o, o)
        out += '''
//@ harness: c03_desc_%(i)d tier=quick timeout=600 kind=main
//@ encodes: NumParams::is_valid_len, NumParams::check_len, NumParams::can_accept_unary, table entries %(ops)s
//@ bound: operand count = every usize (2^64 values); acceptance == documented arity set
#[cfg_attr(kani, kani::proof)]
#[cfg_attr(kani, kani::unwind(14))]
#[cfg_attr(kani, kani::stub(std::fmt::format, stub_format))]
#[cfg_attr(verif_replay, test)]
pub fn c03_desc_%(i)d() {
    let len = in_usize::<1>();
    vshow!("len = {}", len);
%(body)s}
''' % dict(i=gi // 6, ops=" ".join(o for _, o in grp), body=body)
    # dispatcher: one harness per (operator, concrete operand count) and per (operator, bare operand shape)
    quick_arr = {("==", 1), ("==", 2), ("max", 0), ("var", 3), ("reduce", 3), ("!", 2), ("<", 4)}
    quick_una = {("!", 2), ("==", 0), ("var", 3), ("if", 2)}
    tymap = {"OPERATOR_MAP": "Operator", "DATA_OPERATOR_MAP": "DataOperator", "LAZY_OPERATOR_MAP": "LazyOperator"}
    for (t, o) in allops:
        for n in range(0, 7):
            if n >= 5 and (o, n) not in quick_arr and o not in ("+", "cat", "merge", "missing", "if", "?:", "*", "and", "or", "min"):
                continue
            tr = "quick" if (o, n) in quick_arr else "thorough"
            out += '''
//@ harness: c03_array_%(id)s_%(n)d tier=%(tier)s timeout=900 kind=main mem=8
//@ encodes: op::op_from_map::<%(ty)s>, NumParams::check_len, NumParams::can_accept_unary, %(t)s["%(o)s"]
//@ bound: rule {"%(o)s": [b1..b%(n)d]} with %(n)d literal operands: accepted iff %(n)d is a documented count; operands passed on by pointer identity, in order
#[cfg_attr(kani, kani::proof)]
#[cfg_attr(kani, kani::unwind(%(unw)d))]
#[cfg_attr(kani, kani::stub(std::fmt::format, stub_format))]
#[cfg_attr(verif_replay, test)]
pub fn c03_array_%(id)s_%(n)d() {
    dispatch_array(&%(t)s, "%(o)s", %(n)d);
}
''' % dict(id=opid(o), n=n, tier=tr, ty=tymap[t], t=t, o=o, unw=max(len(o) + 2, n + 2, 4))
        for sh in range(4):
            tr = "quick" if (o, sh) in quick_una else "thorough"
            if tr == "thorough" and sh in (0, 3) and o not in ("var", "!", "cat"):
                continue
            out += '''
//@ harness: c03_unary_%(id)s_%(sh)d tier=%(tier)s timeout=900 kind=main mem=8
//@ encodes: op::op_from_map::<%(ty)s>, NumParams::check_len, NumParams::can_accept_unary, %(t)s["%(o)s"]
//@ bound: rule {"%(o)s": x}, x a bare %(shape)s: exactly one operand, the value itself (pointer identity), iff arity 1 is documented
#[cfg_attr(kani, kani::proof)]
#[cfg_attr(kani, kani::unwind(%(unw)d))]
#[cfg_attr(kani, kani::stub(std::fmt::format, stub_format))]
#[cfg_attr(verif_replay, test)]
pub fn c03_unary_%(id)s_%(sh)d() {
    dispatch_unary(&%(t)s, "%(o)s", %(sh)d);
}
''' % dict(id=opid(o), sh=sh, tier=tr, ty=tymap[t], t=t, o=o, unw=max(len(o) + 2, 4),
           shape=["null", "Bool(any)", "Number(any i64)", '""'][sh])
    return {"c03_op.rs": out}
