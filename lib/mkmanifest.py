#!/usr/bin/env python3
"""Regenerates /verif/MANIFEST.json from the table below (kept in one place so that it stays valid)."""
import json, os
V = os.path.dirname(os.path.dirname(os.path.abspath(__file__)))

KANI_NOTE = ("Trusted: Kani's MIR->goto translation and std models, CBMC + CaDiCaL, the reference models in /verif/harness. "
             "Stubs (listed per harness in evidence): std::fmt::format -> \"\" (messages are not the subject); drop glue of plain data types is "
             "a no-op (deallocation not modelled); per-loop unwind bounds are checked by unwinding assertions. ")

CHECKS = {
 "C01": dict(
   text="Bounded model checking for panic-freedom (Kani checks every panic!, unwrap, arithmetic overflow with overflow-checks ON, shift, "
        "division trap and slice index): to_number_value over every f64; every public js_op helper per scalar shape pair with every payload; every "
        "eager operator closure at each arity its own descriptor accepts (n<=4); substr with i64 extremes / u64 / double operands; the negative-index helper over every i64.",
   note=KANI_NOTE + "Units, not apply: nesting depth, allocation failure, CLI/Python process boundaries, operation-valued operands and `log` (println!) are outside. "
        "The release profile (wrapping arithmetic) is exercised by the native replay only.",
   design="4/C01"),
 "C02": dict(
   text="Bounded model checking of the three dispatch tables: every ASCII key of <=3 bytes is found iff it is a documented name; every one-edit neighbour "
        "(substitution / insertion / deletion / case flip at a symbolic position with a symbolic byte) of the documented names is found iff it is itself a name; "
        "literals (scalars, arrays even when they contain an operation or an object, {}, non-operator single-key objects) parse to Raw and evaluate to the very same value (pointer identity); "
        "the public apply() on scalar literals returns a value identical in type, value and number spelling.",
   note=KANI_NOTE + "Near-miss families: 12 (name, edit) pairs in the quick tier, all 35 names x 4 edits in the thorough tier. Unit = Parsed::from_value / op_from_map, not apply.",
   design="4/C02"),
 "C03": dict(
   text="Bounded model checking of the compiled code: every table descriptor against the documented arity set over EVERY usize operand count "
        "(35 operators), plus the generic dispatcher op_from_map per (operator, operand count n<=6) and per bare-operand shape: accepted iff documented, "
        "operands passed on unchanged (pointer identity) - UNSAT over all payloads.",
   note=KANI_NOTE + "Dispatcher layer bounded at n<=6 literal operands, one harness per concrete (operator, n).",
   design="4/C03"),
 "C05": dict(
   text="Bounded model checking of if_ / and / or on 0..7 (if) and 1..5 (and/or) literal operands with symbolic payloads: the returned operand equals the reference, "
        "and - via a recording twin of Parsed::from_value - the operands parsed-and-evaluated are exactly the conditions left to right up to the deciding one plus its branch; "
        "?: is the same function pointer as if.",
   note=KANI_NOTE + "Parsed::from_value is replaced by a recording twin returning Raw (sound for literal operands: C02); operation-valued (poisoned / logging) operands are outside.",
   design="4/C05"),
 "C06": dict(
   text="Bounded model checking of truthy(), the ! / !! table closures and the if / and / or users against the JsonLogic table, for every scalar "
        "payload (all i64/u64/f64 incl. -0.0), strings of <=2 symbolic chars, [], [0], [[]], {}, {a:false}.",
   note=KANI_NOTE + "Users are driven with literal operands (asserted cuts make operation operands unreachable). filter / some / all users: three (predicate shape, operator) pairs in the quick tier "
        "(recording twin of Parsed::from_value + bounded clone model, 11 GB each), more in the thorough tier.",
   design="4/C06"),
 "C07": dict(
   text="Bounded model checking of abstract_eq/abstract_ne over the operand-shape pair matrix (null, bool, i64, u64, f64, string, [s], [], {}) with fully "
        "symbolic payloads, 'dispatch modulo conversion' (str_to_number / to_string replaced by oracles returning ANY value) plus the real "
        "str_to_number on an 80-string corpus against an ECMA-262 transcription; symmetry and != = not == asserted in every harness.",
   note=KANI_NOTE + "Numeric meaning of strings is decided only on the corpus (constant-folded execution); containers limited to [s], [], {}.",
   design="4/C07"),
 "C08": dict(
   text="Bounded model checking of strict_eq/strict_ne: all 9 number representation pairs over every payload, all primitive cross-type pairs, "
        "strings of <=2 symbolic chars, distinct container instances; symmetry, !== = not ===, === implies ==.",
   note=KANI_NOTE + "Containers obtained by evaluation: Operation::evaluate harness only in the thorough tier.",
   design="4/C08"),
 "C09": dict(
   text="Bounded model checking of abstract_lt/gt/lte/gte over the same shape-pair matrix as C07 against the ECMAScript relational algorithm "
        "(<= is less-or-equal of the converted operands), mirror laws a>b = b<a and a>=b = b<=a in every harness, and the 3-operand 'between' form "
        "as the conjunction of the adjacent comparisons.",
   note=KANI_NOTE + "String-to-number meaning via oracle + corpus as in C07; strings <=2 symbolic chars.",
   design="4/C09"),
 "C10": dict(
   text="Assume-guarantee bounded model checking: (G1) to_number_value over EVERY f64 bit pattern; (G2) Number()/parseFloat-style conversion per "
        "operand shape; (G3) each arithmetic operator closure == to_number_value(exact IEEE fold of the converted operands), error iff non-numeric.",
   note=KANI_NOTE + "Two fully symbolic doubles for + - min max; for * / % one operand is symbolic and the other a per-harness constant (two symbolic "
        "doubles through a multiplier/divider do not finish); the VALUE of float % is CBMC's fmod model on both sides (wiring only).",
   design="4/C10"),
 "C11": dict(
   text="Bounded model checking of the private lookup steps of var: the negative-index helper (len<=3, every i64), key typing per operand shape, whole-data keys "
        "(null, \"\", no operand), integer keys on array data, and present-beats-default / absent-gives-default on concrete in-range and out-of-range keys (incl. i64::MIN/MAX).",
   note=KANI_NOTE + "serde_json's Value::clone is replaced by a bounded model (scalars, arrays one level) in the array/default harnesses. String data by character, "
        "path splitting and object paths are in the thorough tier or outside (see evidence 'outside_claim').",
   design="4/C11"),
 "C15": dict(
   text="Bounded model checking of `in`: all 9 number representation pairs with every payload (member iff numerically equal), scalar membership by type and value, "
        "null haystack false, scalar/object haystack error, string haystack with non-string needle error; `merge` of scalar operands (null included) keeps each as one element in order.",
   note=KANI_NOTE + "merge with array operands, substring search and object needles are in the thorough tier / outside (Vec growth and str::contains exceed 8-12 GB in CBMC).",
   design="4/C15"),
 "C16": dict(
   text="Bounded model checking of substr against a character-based reference for strings of 0..1 (quick) / 0..3 (thorough) characters of symbolic "
        "UTF-8 width with start and length ranging over EVERY i64, and of cat on operand shapes string/null/bool/object (arrays and integers in the thorough tier).",
   note=KANI_NOTE + "substr results are compared through their byte length under symbolic widths (distinct for distinct runs); byte-wise content comparison exceeds 24 GB.",
   design="4/C16"),
 "C19": dict(
   text="CrossHair (z3-backed symbolic execution of Python) over the real wrapper source with the native module stubbed: defaults, omitted/supplied "
        "optional arguments, composition with (de)serialisers, ValueError propagation.",
   note="Trusted: CrossHair, z3, the native-module stub (same signature as py_fn!). 'Not confirmed' conditions are bounded explorations within the per-condition timeout.",
   design="4/C19", engine="crosshair",
   technique="symbolic execution of the Python wrapper (CrossHair over z3) against executable contracts, counterexamples replayed natively"),
}

NA = {
 "C04": "needs operation-shaped (BTreeMap-backed) values flowing through the whole interpreter with fn-pointer fan-out; no CBMC verdict within 30 min / 24 GB (DESIGN 4/C04)",
 "C12": "monolithic fold over heap-resident Values with deep clone/equality; no CBMC verdict within 30 min / 24 GB (DESIGN 4/C12)",
 "C13": "scoping / fold order need element-reading expressions evaluated through the interpreter (fn-pointer fan-out per element); literal-only corner would overstate the claim (DESIGN 4/C13)",
 "C14": "collection quantifiers over heap-resident Values: no CBMC verdict within the 10 min / 16 GB budget rule (DESIGN 4/C14, 7)",
 "C17": "quantifies over thread schedules and call histories at apply level; Kani/CBMC does not model threads and one apply call does not finish symbolic execution",
 "C18": "deciding code is main(): clap, stdin, println!, process exit status - OS boundary that CBMC cannot encode",
}

def main():
    checks = []
    for pid in sorted(CHECKS):
        c = CHECKS[pid]
        checks.append({
            "property_id": pid,
            "quick_cmd": "./check %s --tier quick" % pid,
            "thorough_cmd": "./check %s --tier thorough" % pid,
            "evidence_file": "/verif/evidence/%s.json" % pid,
            "replay_cmd_template": "./check %s --replay {path}" % pid,
            "engine": c.get("engine", "kani-cbmc"),
            "level_claimed": {"category": "model_checking", "text": c["text"], "design_ref": c["design"]},
            "level_note": c["note"],
            "technique": c.get("technique", "bounded model checking of the compiled Rust code (Kani 0.68 -> CBMC 6.11 -> CaDiCaL), counterexamples replayed natively"),
        })
    all_ids = ["C%02d" % i for i in range(1, 20)]
    na = []
    for pid in all_ids:
        if pid in CHECKS:
            continue
        na.append({"property_id": pid, "reason": NA.get(pid, "check not built yet in this revision (planned; see DESIGN.md section 4)")})
    m = {
        "version": 1,
        "setup_cmd": "./setup.sh",
        "hooks": {
            "guard": "cfg(kani) / cfg(verif_replay) in a staged scratch copy only; /repo carries no hooks",
            "enable": "./check stages /repo's working tree under /var/tmp/jlverif, appends '#[cfg(any(kani, verif_replay))] #[path] mod verif_*;' lines to the staged module files and builds that copy with cargo kani (cfg kani) or RUSTFLAGS='--cfg verif_replay' cargo test --lib (native replay)",
            "baseline_off_cmd": "cd /repo && cargo test --workspace --no-fail-fast --offline",
            "source_commits": [],
            "add_only": True,
        },
        "engines": [
            {"name": "crosshair", "path": "/verif/lib/c19.py", "serves_properties": ["C19"],
             "kind_free_text": "CrossHair 0.0.110 symbolic execution over z3 of py/jsonlogic_rs/__init__.py with contracts in /verif/py/c19_contracts.py"},
            {"name": "kani-cbmc", "path": "/verif/lib/vlib.py", "serves_properties": sorted(k for k in CHECKS if CHECKS[k].get("engine", "kani-cbmc") == "kani-cbmc"),
             "kind_free_text": "Kani 0.68 compiles harness + real crate to goto; driver steps reproduced (goto-cc, goto-instrument), optional asserted cuts; CBMC 6.11 + CaDiCaL decides; model replayed natively"},
        ],
        "checks": checks,
        "not_applicable": na,
        "notes": "exit 2 = inconclusive (timeout/OOM/unwinding/harness out of date/unreproduced model): no claim, never reported as success or violation. See DESIGN.md.",
    }
    json.dump(m, open(os.path.join(V, "MANIFEST.json"), "w"), indent=1)

main()
