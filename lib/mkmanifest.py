#!/usr/bin/env python3
"""Regenerates /verif/MANIFEST.json from the table below (kept in one place so that it stays valid)."""
import json, os
V = os.path.dirname(os.path.dirname(os.path.abspath(__file__)))

CHECKS = {
 "C10": dict(
   text="Bounded model checking of the compiled real code: to_number_value over every f64 bit pattern; "
        "more units listed in evidence. UNSAT = holds for all inputs inside the stated per-harness bound.",
   note="Trusted: Kani's MIR->goto translation and std models, CBMC+CaDiCaL, the harness reference models. "
        "std::fmt::format is stubbed (messages are not the subject). Out: float %, folds of >2 symbolic doubles.",
   design="4/C10"),
}

NA = {
 "C04": "needs operation-shaped (BTreeMap-backed) values flowing through the whole interpreter with fn-pointer fan-out; no CBMC verdict within 30 min / 24 GB (DESIGN 4/C04)",
 "C12": "monolithic fold over heap-resident Values with deep clone/equality; no CBMC verdict within 30 min / 24 GB (DESIGN 4/C12)",
 "C13": "scoping / fold order need element-reading expressions evaluated through the interpreter (fn-pointer fan-out per element); literal-only corner would overstate the claim (DESIGN 4/C13)",
 "C14": "collection quantifiers over heap-resident Values: no CBMC verdict within the 10 min / 16 GB budget rule (DESIGN 4/C14, 7)",
 "C17": "quantifies over thread schedules and call histories at apply level; Kani/CBMC does not model threads and one apply call does not finish symbolic execution",
 "C18": "deciding code is main(): clap, stdin, println!, process exit status - OS boundary that CBMC cannot encode",
}

def main():
    checks = []
    for pid in sorted(CHECKS):
        c = CHECKS[pid]
        checks.append({
            "property_id": pid,
            "quick_cmd": "./check %s --tier quick" % pid,
            "thorough_cmd": "./check %s --tier thorough" % pid,
            "evidence_file": "/verif/evidence/%s.json" % pid,
            "replay_cmd_template": "./check %s --replay {path}" % pid,
            "engine": c.get("engine", "kani-cbmc"),
            "level_claimed": {"category": "model_checking", "text": c["text"], "design_ref": c["design"]},
            "level_note": c["note"],
            "technique": c.get("technique", "bounded model checking of the compiled Rust code (Kani 0.68 -> CBMC 6.11 -> CaDiCaL), counterexamples replayed natively"),
        })
    all_ids = ["C%02d" % i for i in range(1, 20)]
    na = []
    for pid in all_ids:
        if pid in CHECKS:
            continue
        na.append({"property_id": pid, "reason": NA.get(pid, "check not built yet in this revision (planned; see DESIGN.md section 4)")})
    m = {
        "version": 1,
        "setup_cmd": "./setup.sh",
        "hooks": {
            "guard": "cfg(kani) / cfg(verif_replay) in a staged scratch copy only; /repo carries no hooks",
            "enable": "./check stages /repo's working tree under /var/tmp/jlverif, appends '#[cfg(any(kani, verif_replay))] #[path] mod verif_*;' lines to the staged module files and builds that copy with cargo kani (cfg kani) or RUSTFLAGS='--cfg verif_replay' cargo test --lib (native replay)",
            "baseline_off_cmd": "cd /repo && cargo test --workspace --no-fail-fast --offline",
            "source_commits": [],
            "add_only": True,
        },
        "engines": [
            {"name": "kani-cbmc", "path": "/verif/lib/vlib.py", "serves_properties": sorted(k for k in CHECKS if CHECKS[k].get("engine", "kani-cbmc") == "kani-cbmc"),
             "kind_free_text": "Kani 0.68 compiles harness + real crate to goto; driver steps reproduced (goto-cc, goto-instrument), optional asserted cuts; CBMC 6.11 + CaDiCaL decides; model replayed natively"},
        ],
        "checks": checks,
        "not_applicable": na,
        "notes": "exit 2 = inconclusive (timeout/OOM/unwinding/harness out of date/unreproduced model): no claim, never reported as success or violation. See DESIGN.md.",
    }
    json.dump(m, open(os.path.join(V, "MANIFEST.json"), "w"), indent=1)

main()
