"""Reference transcriptions of ECMA-262 StringToNumber (Number(string)) and parseFloat, used to produce the
EXPECTED values of the text->number corpus harnesses.  Trusted base; cross-checked against the repository's own
unit-test tables by selftest()."""
import math
import re

JS_WS = "\u0009\u000a\u000b\u000c\u000d\u0020\u00a0\u1680" + "".join(chr(c) for c in range(0x2000, 0x200b)) + "\u2028\u2029\u202f\u205f\u3000\ufeff"
DEC = r"(?:\d+\.?\d*(?:[eE][+-]?\d+)?|\.\d+(?:[eE][+-]?\d+)?)"


def string_to_number(s):
    """returns float (possibly inf) or None for NaN"""
    t = s.strip(JS_WS)
    if t == "":
        return 0.0
    m = re.fullmatch(r"0[xX]([0-9a-fA-F]+)", t)
    if m:
        return float(int(m.group(1), 16))
    m = re.fullmatch(r"0[oO]([0-7]+)", t)
    if m:
        return float(int(m.group(1), 8))
    m = re.fullmatch(r"0[bB]([01]+)", t)
    if m:
        return float(int(m.group(1), 2))
    m = re.fullmatch(r"([+-]?)(Infinity|" + DEC + ")", t)
    if not m:
        return None
    if m.group(2) == "Infinity":
        return -math.inf if m.group(1) == "-" else math.inf
    return float(m.group(1) + m.group(2))


def parse_float(s):
    t = s.lstrip(JS_WS)
    m = re.match(r"([+-]?)(Infinity|" + DEC + ")", t)
    if not m:
        return None
    if m.group(2) == "Infinity":
        return -math.inf if m.group(1) == "-" else math.inf
    return float(m.group(1) + m.group(2))


def rust_f64(x):
    if x is None:
        return "None"
    if math.isinf(x):
        return "Some(f64::INFINITY)" if x > 0 else "Some(f64::NEG_INFINITY)"
    return "Some(f64::from_bits(0x%016x))" % __import__("struct").unpack("<Q", __import__("struct").pack("<d", x))[0]


S2N_CORPUS = [
    "", " ", "0", "1", "-1", "+1", "1.0", "1.", ".5", "-.5", "+.5", "1e3", "1E3", "1e+3", "1e-3", "5.e1",
    " 1 ", "\t1\n", " 1　", "\ufeff7", "1 2", "1,2", "1_0", "abc", "1a", "a1", "12px",
    "Infinity", "+Infinity", "-Infinity", "infinity", "INFINITY", "inf", "-inf", "Inf", "nan", "NaN", "-nan",
    "0x10", "0X1f", "0xg", "0x", "-0x10", "+0x10", "0o17", "0O7", "0o8", "0b101", "0B1", "0b2", "0b",
    "-0", "+0", "00", "007", "1e", "e1", "1e+", ".", "+", "-", "+-1", "--1", "1..2", "1.2.3",
    "[object Object]", "true", "false", "null", "9007199254740993", "1e400", "-1e400", "4.9e-324", "1e-400",
    "0.1", "123456789012345678901234567890", "  \n", "1\u00001",
]

# long radix literals / exponents: values beyond 64 bits must be rounded doubles, not overflow
S2N_CORPUS += ["0x10000000000000000", "0xFFFFFFFFFFFFFFFFFFFF", "0b" + "1" * 66, "0o7777777777777777777777", "0x" + "f" * 40]
TOTALITY_EXTRA = ["9" * 40, "-" + "9" * 40, "1e-99999", "1e99999", "0." + "0" * 40 + "1", "0x" + "0" * 30 + "1", "\u0009\u000b\u000c\u00a0\ufeff"]

PF_CORPUS = [
    "", " ", "1", "12px", "1e", "1e+", "1e+5x", "1-2", "1+1", ".5.", ".5", "5.", "  7", "7  ", "-", "+", "-.", "abc", "-5x",
    "+5", "1.1.1", "1234abc", "1E2", "1e-2", "Infinity", "-Infinityx", "inf", "nan", "0x10", "e5", ".e5", "1_0", "1,2",
    "null", "true", "false", "[object Object]", "\t\n 3.5e1q", "--1", "+-1", "1ee2", "1e2e3", "00.5", "-0",
]


def selftest():
    # pairs embedded in the repository's own tests (js_op.rs test tables)
    assert string_to_number("1") == 1.0 and string_to_number("1.0") == 1.0 and string_to_number("") == 0.0
    assert string_to_number("-0") == 0.0 and string_to_number("+0") == 0.0 and string_to_number("-1") == -1.0
    assert string_to_number("a") is None and string_to_number("1,2") is None and string_to_number("[object Object]") is None
    for s, e in [("1", 1.0), ("1e2", 100.0), ("1E2", 100.0), ("1.1e2", 110.0), ("-1.1e2", -110.0), ("1e-2", 0.01),
                 ("1.0", 1.0), ("1.1", 1.1), ("1.1.1", 1.1), ("1234abc", 1234.0), ("1e", 1.0), ("1E", 1.0),
                 ("false", None), ("true", None), ("null", None), ("+5", 5.0), ("-5", -5.0), ("", None),
                 ("1,2", 1.0), ("[object Object]", None)]:
        assert parse_float(s) == e, (s, parse_float(s), e)
    return True


if __name__ == "__main__":
    selftest()
    for s in S2N_CORPUS:
        print(repr(s), string_to_number(s))
