"""C19 runner: CrossHair (symbolic execution of Python over z3) on the real wrapper source."""
import ast
import hashlib
import json
import os
import re
import subprocess
import sys
import time

from vlib import VERIF, REPO, log

PY = "/opt/veriftools/pyvenv/bin/python"
CROSSHAIR = "/opt/veriftools/pyvenv/bin/crosshair"
CONTRACTS = os.path.join(VERIF, "py", "c19_contracts.py")


def run_c19(prop, spec, tier, seed):
    t0 = time.time()
    per = 40 if tier == "quick" else 240
    env = dict(os.environ, VERIF_REPO=REPO, PYTHONHASHSEED=str(seed))
    cmd = [CROSSHAIR, "check", "--report_all", "--per_condition_timeout", str(per),
           "--per_path_timeout", "10", CONTRACTS]
    p = subprocess.run(cmd, env=env, stdout=subprocess.PIPE, stderr=subprocess.STDOUT, text=True, cwd=VERIF)
    out = p.stdout
    lines = []
    exit_code = 0
    conds = []
    viol = 0
    src = open(CONTRACTS).read().splitlines()

    def fn_at(lineno):
        for i in range(lineno - 1, -1, -1):
            m = re.match(r"def (\w+)\(", src[i])
            if m:
                return m.group(1)
        return "?"

    for l in out.splitlines():
        m = re.match(r"^(.*?):(\d+): (error|info): (.*)$", l)
        if not m:
            continue
        lineno, kind, msg = int(m.group(2)), m.group(3), m.group(4)
        fn = fn_at(lineno)
        c = {"contract": fn, "status": kind, "message": msg[:400]}
        if kind == "error":
            mm = re.search(r"when calling (\w+)\((.*?)\)(?: \(which returns .*\))?$", msg)
            replayed = None
            if mm:
                try:
                    args = list(ast.literal_eval("(" + mm.group(2) + ",)"))
                    rp = subprocess.run([PY, CONTRACTS, mm.group(1), json.dumps(args)], env=env,
                                        stdout=subprocess.PIPE, stderr=subprocess.STDOUT, text=True)
                    replayed = {"args": args, "rc": rp.returncode, "out": rp.stdout[-300:]}
                except Exception as e:  # noqa
                    replayed = {"error": repr(e)}
            c["replay"] = replayed
            if replayed and replayed.get("rc") == 1:
                viol += 1
                exit_code = 1
                import runner as _r
                os.makedirs(os.path.join(_r.EVID, "replay"), exist_ok=True)
                body = {"property": prop, "engine": "crosshair", "contract": mm.group(1), "args": replayed["args"],
                        "message": msg, "replay": replayed,
                        "replay_cmd": "%s %s %s '%s'" % (PY, CONTRACTS, mm.group(1), json.dumps(replayed["args"]))}
                h = hashlib.sha1(json.dumps(body["args"]).encode()).hexdigest()[:10]
                path = os.path.join(_r.EVID, "replay", "%s-%s-%s.json" % (prop, mm.group(1), h))
                json.dump(body, open(path, "w"), indent=1)
                lines.append("VIOLATION property=%s replay=%s" % (prop, path))
                lines.append("  " + msg[:300])
            else:
                if exit_code == 0:
                    exit_code = 2
                lines.append("INCONCLUSIVE property=%s crosshair counterexample did not replay: %s" % (prop, msg[:200]))
        conds.append(c)
        log("[%s] %-22s %s %s" % (prop, fn, kind, msg[:120]))
    confirmed = [c for c in conds if c["status"] == "info" and "Confirmed over all paths" in c["message"]]
    unknown = [c for c in conds if c["status"] == "info" and "Confirmed over all paths" not in c["message"]]
    if p.returncode not in (0, 1) and exit_code == 0:
        exit_code = 2
        lines.append("INCONCLUSIVE property=%s crosshair exit code %s: %s" % (prop, p.returncode, out[-300:]))
    if not conds and exit_code == 0:
        exit_code = 2
        lines.append("INCONCLUSIVE property=%s crosshair reported no conditions" % prop)
    ev = {
        "property_id": prop, "tier": tier, "seed": seed, "level": "model_checking",
        "coverage": {
            "evaluations": max(len(conds), 1),
            "distinct_nontrivial": len([c for c in conds if c["status"] == "info"]),
            "rule": "one evaluation = one CrossHair contract condition over the real wrapper source with symbolic "
                    "arguments (str / Optional[str] / JSON-like unions / flags for omitted-vs-supplied optional "
                    "arguments); non-trivial = condition analysed without error",
            "samples": conds or [{"note": "none"}],
            "obligations": len(conds), "discharged": len(confirmed),
            "not_exhausted_within_timeout": len(unknown),
            "checker_cmd": " ".join(cmd),
            "trusted_base": ["CrossHair 0.0.110 symbolic execution of CPython bytecode over z3", "stub of the native module (py_fn! signature)"],
            "functions_encoded": ["py/jsonlogic_rs/__init__.py: apply, apply_serialized"],
            "bounds": "per-condition timeout %ds, per-path timeout 10s; 'Confirmed over all paths' = exhaustive for that contract, otherwise bounded exploration (no counterexample found within the budget)" % per,
            "outside_claim": "the native half (python_iface::apply / py_fn! mapping Err to ValueError, panics across FFI)",
            "exhaustive": len(unknown) == 0 and len(confirmed) > 0,
        },
        "assumptions": ["native module replaced by a stub with the same signature; json module is the real one"],
        "wall_s": round(time.time() - t0, 1),
        "violations": viol,
    }
    return exit_code, ev, lines
