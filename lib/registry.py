"""Per-property harness sets.  files: (parent module in the crate, harness source under /verif/harness)."""
import gen
import c19

PROPS = {
    "C01": dict(
        files=[("op", "c01_op.rs"), ("op::data", "c11_data.rs")],
        generators=[gen.gen_c01],
        only_from={"c11_data.rs": ["c11_get_index", "c11_get_index_wit", "c11_key_typing", "c11_default_absent_extreme"]},
        bounds="units: to_number_value over every f64; every public js_op helper per scalar shape pair; every eager operator closure at each accepted arity (n<=4); substr with u64 / f64 / extreme i64 operands; the index helper over every i64",
        out="stack depth at nesting 128 and termination for unbounded inputs; allocation failure; the CLI exit status and the Python exception mapping; operand expressions that are themselves operations; `log` (println!)",
    ),
    "C15": dict(
        files=[("op", "c15_op.rs")],
        generators=[gen.gen_c15],
        bounds="in: scalar needles against 2-3 element haystacks, all 9 number representation pairs with every payload, substring needle 1 char / haystack 2 chars; merge: <=3 operands of scalars and arrays of <=2 scalars",
        out="object needles / key order (BTreeMap equality), nesting deeper than one level inside `in`, longer strings",
    ),
    "C02": dict(
        files=[("op", "c02_op.rs")],
        generators=[gen.gen_c02],
        bounds="table membership: every ASCII key of <=3 bytes; one-edit neighbours (substitute/insert/delete/case) of all 35 names; literal identity per shape",
        out="non-ASCII keys; keys further than one edit from a name and longer than 3 bytes; the all/some/none literal-array exception (C14); apply itself (unit = Parsed::from_value / evaluate)",
    ),
    "C05": dict(
        files=[("value", "c05_value.rs"), ("op", "c05_op.rs")],
        generators=[gen.gen_c05],
        bounds="operand lists of length 0..5 (quick) / 0..7 (thorough) of literal scalars with symbolic payloads",
        out="operands that are operations (poisoned / logging expressions need Operation::evaluate's fn-pointer fan-out); the CLI's log lines; lists longer than 7",
    ),
    "C11": dict(
        files=[("op::data", "c11_data.rs")],
        generators=[gen.gen_c11],
        bounds="units of the lookup: index helper (len<=3, every i64), key typing per shape, string data <=2 chars of symbolic width, array data of 2 scalars, paths <=2 (quick) / 3 (thorough) chars over {a . \\ 1}, default logic on concrete keys",
        out="nested object paths and objects (BTreeMap search over symbolic node contents), the frame property over arbitrary data trees, computed keys, var with a symbolic key through the public function",
    ),
    "C19": dict(files=[], runner=c19.run_c19),
    "C16": dict(
        files=[("op", "c16_op.rs")],
        generators=[gen.gen_c16],
        bounds="substr: strings of 0..4 chars of symbolic UTF-8 width, start/length every i64; cat: <= 2 operands of 9 shapes",
        out="float operands of cat (R6); strings longer than 4 chars; cat of 3+ operands (associativity follows from the fold, not re-proved)",
    ),
    "C06": dict(
        files=[("value", "c05_value.rs"), ("op", "c06_op.rs")],
        bounds="every scalar payload; strings <= 2 symbolic chars; containers [], [0], [[]], {}, {a:false}; users with literal operands",
        out="truthiness of values reached through var or produced by operators (interpreter); strings longer than 2",
    ),
    "C08": dict(
        files=[("op", "c08_op.rs")],
        bounds="primitive pairs fully symbolic (all number representations, strings <= 2 symbolic chars); containers [] [7] {} {a:null}",
        out="non-empty containers through Operation::evaluate; strings longer than 2 characters",
    ),
    "C07": dict(
        files=[("op", "c07_op.rs")], generated_files=[],
        generators=[gen.gen_c07],
        bounds="operand shape pairs (R1), payloads symbolic; strings <= 2 symbolic chars; containers [s] / [] / {}",
        out="numeric meaning of strings beyond the corpus; arrays longer than 1 / nested; evaluation through apply",
    ),
    "C09": dict(
        files=[("op", "c09_op.rs")],
        generators=[gen.gen_c09],
        bounds="operand shape pairs (R1), payloads symbolic; strings <= 2 symbolic chars; containers [s] / [] / {}",
        out="numeric meaning of strings beyond the corpus; arrays longer than 1 / nested; evaluation through apply",
    ),
    "EXP": dict(files=[("op", "exp_op.rs")]),
    "EXD": dict(files=[("op::data", "exp_data.rs")]),
    "C03": dict(
        files=[("op", "c03_op.rs")],
        generators=[gen.gen_c03],
        bounds="descriptor layer: every usize; dispatcher layer: n <= 6 operands, literal null operands",
        out="n > 6 at the dispatcher layer; equality of evaluation results of the two spellings (follows from identical parsed arguments)",
    ),
    "C10": dict(
        files=[("op", "c10_op.rs")],
        generators=[gen.gen_c10],
        bounds="see per-harness 'bound'",
        out="float remainder (%): CBMC's fmod is not exact; folds of >2 symbolic doubles; text->number beyond the corpus",
    ),
}
