"""Per-property harness sets.  files: (parent module in the crate, harness source under /verif/harness)."""
import gen

PROPS = {
    "C10": dict(
        files=[("op", "c10_op.rs")],
        generators=[gen.gen_c10],
        bounds="see per-harness 'bound'",
        out="float remainder (%): CBMC's fmod is not exact; folds of >2 symbolic doubles; text->number beyond the corpus",
    ),
}
