"""./check <Cxx> --replay <path>: re-run a stored counterexample natively against /repo's CURRENT working tree.
exit 1 if it (still) reproduces, 0 if the harness passes on it, 2 if inconclusive."""
import json
import os
import subprocess
import sys

import registry
import runner
from vlib import Stage, REPO, log


def main(prop, path):
    body = json.load(open(path))
    if body.get("engine") == "crosshair":
        import c19
        env = dict(os.environ, VERIF_REPO=REPO)
        rp = subprocess.run([c19.PY, c19.CONTRACTS, body["contract"], json.dumps(body["args"])], env=env)
        print("replay %s(%s): %s" % (body["contract"], body["args"], "REPRODUCED" if rp.returncode == 1 else "holds"))
        return 1 if rp.returncode == 1 else 0
    spec = registry.PROPS[prop]
    generated = {}
    for g in spec.get("generators", []):
        generated.update(g("thorough"))
    stage = Stage(prop, list(spec["files"]), generated).build()
    try:
        hs = [h for h in stage.harnesses if h.name == body["harness"]]
        if not hs:
            print("harness %s no longer exists" % body["harness"])
            return 2
        rep = runner.Replayer(stage).run(hs[0], {int(k): v for k, v in body["inputs"].items()})
        print(json.dumps(rep, indent=1))
        if any(x["outcome"] == "reproduced" for x in rep.values()):
            print("VIOLATION property=%s replay=%s" % (prop, path))
            return 1
        if all(x["outcome"] == "passed" for x in rep.values()):
            return 0
        return 2
    finally:
        stage.cleanup()
