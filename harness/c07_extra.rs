
//@ harness: c07_wit tier=quick timeout=300 kind=witness
//@ encodes: js_op::abstract_eq
//@ bound: vacuity twin (number vs string-with-meaning pair)
#[cfg_attr(kani, kani::proof)]
#[cfg_attr(kani, kani::unwind(20))]
#[cfg_attr(kani, kani::stub(std::fmt::format, stub_format))]
#[cfg_attr(kani, kani::stub(crate::js_op::str_to_number, s2n_oracle))]
#[cfg_attr(kani, kani::stub(crate::js_op::to_string, to_string_oracle))]
#[cfg_attr(verif_replay, test)]
pub fn c07_wit() {
    let r_or = oracle_setup::<900, 901, 902, 903>();
    let a = Value::Number(Number::from(in_i64::<1>()));
    let b = Value::String(string_meaning(r_or));
    let got = js_op::abstract_eq(&a, &b);
    assume(got);
    std::mem::forget(a);
    std::mem::forget(b);
    assert!(false, "WITNESS");
}
