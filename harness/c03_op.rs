//! C03 harnesses — child module of `op` (staged copy only).
#![allow(unused)]
use super::*;
use crate::verif_common::*;
use crate::{vcover, vshow};
use serde_json::{Map, Number, Value};

/// Documented arity sets, transcribed from the statement of C03 (not from the tables).
pub fn spec_arity(op: &str, n: usize) -> bool {
    match op {
        "==" | "!=" | "===" | "!==" | "/" | "%" | "in" | "map" | "filter" | "all" | "some" | "none"
        | "missing_some" => n == 2,
        "<" | "<=" | ">" | ">=" | "substr" => n == 2 || n == 3,
        "reduce" => n == 3,
        "!" | "!!" | "log" => n == 1,
        "-" => n == 1 || n == 2,
        "var" => n <= 2,
        "*" | "max" | "min" | "and" | "or" => n >= 1,
        "+" | "cat" | "merge" | "missing" | "if" | "?:" => true,
        _ => {
            assert!(false, "not an operator name");
            false
        }
    }
}

pub fn check_descriptor(np: &NumParams, op: &str, len: usize) {
    assert!(np.is_valid_len(&len) == spec_arity(op, len), "C03: descriptor accepts a wrong operand count");
    assert!(np.can_accept_unary() == spec_arity(op, 1), "C03: unary-sugar acceptance differs from arity 1");
    let l2 = len;
    match np.check_len(&l2) {
        Ok(_) => assert!(spec_arity(op, len), "C03: check_len accepted a wrong operand count"),
        Err(_) => assert!(!spec_arity(op, len), "C03: check_len rejected a documented operand count"),
    }
}

/// rule {key: [null; n]} (n concrete per harness, R1) through the generic dispatcher of table `map`
pub fn dispatch_array<T: CommonOperator>(map: &phf::Map<&'static str, T>, key: &'static str, n: usize) {
    let mut v: Vec<Value> = Vec::with_capacity(8);
    let mut i = 0;
    while i < n {
        v.push(Value::Bool(in_bool::<1>()));
        i += 1;
    }
    let base: *const Value = v.as_ptr(); // the heap buffer does not move when the Vec is moved into the map
    let mut m = Map::new();
    m.insert(String::from(key), Value::Array(v));
    let rule = Value::Object(m);
    let r = op_from_map(map, &rule);
    vshow!("{} with {} operands -> ok={}", key, n, r.is_ok());
    match &r {
        Ok(Some(oa)) => {
            assert!(spec_arity(key, n), "C03: undocumented operand count accepted");
            assert!(oa.args.len() == n, "C03: operands dropped or invented");
            let mut j = 0;
            while j < n {
                assert!(std::ptr::eq(oa.args[j] as *const Value, base.wrapping_add(j)), "C03: operand order / identity changed");
                j += 1;
            }
        }
        Ok(None) => assert!(false, "C03: operator key not dispatched"),
        Err(_) => assert!(!spec_arity(key, n), "C03: documented operand count rejected"),
    }
    std::mem::forget(r);
    std::mem::forget(rule);
}

/// rule {key: x} with a non-array x of concrete shape `shape`: exactly {key: [x]}
pub fn dispatch_unary<T: CommonOperator>(map: &phf::Map<&'static str, T>, key: &'static str, shape: u8) {
    let payload = in_i64::<2>();
    let x = match shape {
        0 => Value::Null,
        1 => Value::Bool(payload & 1 == 1),
        2 => Value::Number(Number::from(payload)),
        _ => Value::String(String::new()),
    };
    let mut m = Map::new();
    m.insert(String::from(key), x);
    let rule = Value::Object(m);
    let r = op_from_map(map, &rule);
    vshow!("{} with bare operand -> ok={}", key, r.is_ok());
    match &r {
        Ok(Some(oa)) => {
            assert!(spec_arity(key, 1), "C03: bare operand accepted by an operator that does not take one operand");
            assert!(oa.args.len() == 1, "C03: bare operand is not exactly one operand");
            let same = match (shape, oa.args[0]) {
                (0, Value::Null) => true,
                (1, Value::Bool(b)) => *b == (payload & 1 == 1),
                (2, Value::Number(nn)) => nn.as_i64() == Some(payload),
                (3, Value::String(st)) => st.len() == 0,
                _ => false,
            };
            assert!(same, "C03: bare operand replaced");
        }
        Ok(None) => assert!(false, "C03: operator key not dispatched"),
        Err(_) => assert!(!spec_arity(key, 1), "C03: bare operand rejected although one operand is documented"),
    }
    std::mem::forget(r);
    std::mem::forget(rule);
}

//@ harness: c03_wit tier=quick timeout=600 kind=witness mem=8
//@ encodes: op::op_from_map
//@ bound: vacuity twin of the dispatch harnesses
#[cfg_attr(kani, kani::proof)]
#[cfg_attr(kani, kani::unwind(5))]
#[cfg_attr(kani, kani::stub(std::fmt::format, stub_format))]
#[cfg_attr(verif_replay, test)]
pub fn c03_wit() {
    dispatch_array(&OPERATOR_MAP, "-", 2);
    assert!(false, "WITNESS");
}
