//! C11 (and the index part of C01) - child module of `op::data` (staged copy only): drives the PRIVATE lookup steps.
#![allow(unused)]
use super::*;
use crate::verif_common::*;
use crate::{vcover, vshow};
use serde_json::{Map, Number, Value};

//@ harness: c11_get_index tier=quick timeout=600 kind=main
//@ encodes: op::data::get::<u32>
//@ bound: slice length 0..3 (symbolic), index = every i64 (incl. i64::MIN): element from the front / from the end / None, never a panic
#[cfg_attr(kani, kani::proof)]
#[cfg_attr(kani, kani::unwind(5))]
#[cfg_attr(kani, kani::stub(std::fmt::format, stub_format))]
#[cfg_attr(verif_replay, test)]
pub fn c11_get_index() {
    let arr: [u32; 3] = [in_u64::<1>() as u32, in_u64::<2>() as u32, in_u64::<3>() as u32];
    let n = in_below::<4>(4) as usize;
    let idx = in_i64::<5>();
    let r = get(&arr[..n], idx);
    vshow!("get(len {}, {}) = {:?}", n, idx, r);
    vcover!(idx == i64::MIN, "extreme index");
    vcover!(idx < 0 && r.is_some(), "negative index hit");
    match (r, ref_index(n, idx)) {
        (Some(x), Some(e)) => assert!(std::ptr::eq(x, &arr[e]), "C11: index resolves to a different element"),
        (None, None) => {}
        _ => assert!(false, "C11: presence of an indexed element differs from the reference"),
    }
}

//@ harness: c11_get_index_wit tier=quick timeout=300 kind=witness
//@ encodes: op::data::get::<u32>
//@ bound: vacuity twin
#[cfg_attr(kani, kani::proof)]
#[cfg_attr(kani, kani::unwind(5))]
#[cfg_attr(kani, kani::stub(std::fmt::format, stub_format))]
#[cfg_attr(verif_replay, test)]
pub fn c11_get_index_wit() {
    let arr: [u32; 3] = [1, 2, 3];
    let idx = in_i64::<5>();
    let r = get(&arr[..], idx);
    assume(r.is_some() && idx < 0);
    assert!(false, "WITNESS");
}

fn key_is(k: &Result<KeyType, crate::error::Error>, want: u8, num: i64) -> bool {
    match (k, want) {
        (Ok(KeyType::Null), 0) => true,
        (Ok(KeyType::String(_)), 1) => true,
        (Ok(KeyType::Number(i)), 2) => *i == num,
        (Err(_), 3) => true,
        _ => false,
    }
}

//@ harness: c11_key_typing tier=quick timeout=600 kind=main
//@ encodes: <op::data::KeyType as TryFrom<&Value>>::try_from
//@ bound: key operand null / String / Number(any i64) / Number(u64 > i64::MAX) / Number(any finite f64) / Bool / [] / {}: null, string, integer keys accepted, everything else an error
#[cfg_attr(kani, kani::proof)]
#[cfg_attr(kani, kani::unwind(5))]
#[cfg_attr(kani, kani::stub(std::fmt::format, stub_format))]
#[cfg_attr(verif_replay, test)]
pub fn c11_key_typing() {
    let v0 = Value::Null;
    assert!(key_is(&KeyType::try_from(&v0), 0, 0), "C11: null key");
    let v1 = Value::String(str1(in_char::<1>()));
    assert!(key_is(&KeyType::try_from(&v1), 1, 0), "C11: string key");
    let i = in_i64::<2>();
    let v2 = Value::Number(Number::from(i));
    assert!(key_is(&KeyType::try_from(&v2), 2, i), "C11: integer key");
    let u = in_u64::<3>();
    let v3 = Value::Number(Number::from(u));
    let k3 = KeyType::try_from(&v3);
    if u <= i64::MAX as u64 {
        assert!(key_is(&k3, 2, u as i64), "C11: integer key (u64 spelling)");
    } else {
        assert!(key_is(&k3, 3, 0), "C11: integer beyond i64 must be rejected");
    }
    let f = in_f64::<4>();
    assume(f.is_finite());
    let v4 = Value::Number(Number::from_f64(f).unwrap());
    assert!(key_is(&KeyType::try_from(&v4), 3, 0), "C11: float-spelled key must be rejected");
    let v5 = Value::Bool(in_bool::<5>());
    assert!(key_is(&KeyType::try_from(&v5), 3, 0), "C11: boolean key must be rejected");
    let v6 = Value::Array(Vec::new());
    assert!(key_is(&KeyType::try_from(&v6), 3, 0), "C11: array key must be rejected");
    let v7 = Value::Object(Map::new());
    assert!(key_is(&KeyType::try_from(&v7), 3, 0), "C11: object key must be rejected");
    std::mem::forget(v1);
}

/// string data of n (concrete) characters with symbolic width class
fn class_data(n: usize, cls: &mut [u64; 3]) -> Value {
    cls[0] = in_below::<1>(4);
    cls[1] = in_below::<2>(4);
    cls[2] = in_below::<3>(4);
    let mut s = String::with_capacity(16);
    let mut i = 0;
    while i < n {
        s.push(class_char(cls[i]));
        i += 1;
    }
    Value::String(s)
}

pub fn get_key_string(n: usize) {
    let mut cls = [0u64; 3];
    let data = class_data(n, &mut cls);
    let idx = in_i64::<5>();
    let r = get_key(&data, KeyType::Number(idx));
    vshow!("get_key({:?}, {}) = {:?}", data, idx, r);
    match (&r, ref_index(n, idx)) {
        (Some(Value::String(c)), Some(e)) => {
            // one character, the e-th: its byte length is the width of that character
            assert!(c.len() == cls[e] as usize + 1, "C11: string indexed by byte, not by character");
            assert!(c.chars().count() == 1, "C11: string index does not yield a single character");
        }
        (None, None) => {}
        _ => assert!(false, "C11: presence of an indexed character differs from the reference"),
    }
    std::mem::forget(r);
    std::mem::forget(data);
}

//@ harness: c11_get_key_string_n1 tier=thorough timeout=900 kind=main mem=28 optional=1
//@ encodes: op::data::get_key (string data, integer key), op::data::get::<char>
//@ bound: string data of 1 character of symbolic UTF-8 width, integer key = every i64
//@ cuts: strcount maps
#[cfg_attr(kani, kani::proof)]
#[cfg_attr(kani, kani::unwind(6))]
#[cfg_attr(kani, kani::stub(std::fmt::format, stub_format))]
#[cfg_attr(kani, kani::stub(<serde_json::Value as std::clone::Clone>::clone, value_clone_model))]
#[cfg_attr(verif_replay, test)]
pub fn c11_get_key_string_n1() {
    get_key_string(1);
}


//@ harness: c11_get_key_array tier=quick timeout=600 kind=main mem=6
//@ encodes: op::data::get_key (array data, integer key), op::data::get::<Value>
//@ bound: array data [i64 a, bool b] (payloads symbolic), integer key = every i64: the element, or absent
//@ cuts: maps
#[cfg_attr(kani, kani::proof)]
#[cfg_attr(kani, kani::unwind(5))]
#[cfg_attr(kani, kani::stub(std::fmt::format, stub_format))]
#[cfg_attr(kani, kani::stub(<serde_json::Value as std::clone::Clone>::clone, value_clone_model))]
#[cfg_attr(verif_replay, test)]
pub fn c11_get_key_array() {
    let a = in_i64::<1>();
    let b = in_bool::<2>();
    let data = Value::Array(vec![Value::Number(Number::from(a)), Value::Bool(b)]);
    let idx = in_i64::<5>();
    let r = get_key(&data, KeyType::Number(idx));
    vshow!("get_key({:?}, {}) = {:?}", data, idx, r);
    match (&r, ref_index(2, idx)) {
        (Some(Value::Number(n)), Some(0)) => assert!(n.as_i64() == Some(a), "C11: wrong array element"),
        (Some(Value::Bool(x)), Some(1)) => assert!(*x == b, "C11: wrong array element"),
        (None, None) => {}
        _ => assert!(false, "C11: array index resolves differently from the reference"),
    }
    std::mem::forget(r);
    std::mem::forget(data);
}

//@ harness: c11_whole_data tier=quick timeout=900 kind=main mem=10
//@ encodes: op::data::get_key (null key), op::data::get_str_key (empty key), op::data::var (no operands)
//@ bound: data Null / Bool / Number(any i64) / String(1 symbolic char): null key, "" key and the operand-less var return the entire data
//@ cuts: maps
#[cfg_attr(kani, kani::proof)]
#[cfg_attr(kani, kani::unwind(6))]
#[cfg_attr(kani, kani::stub(std::fmt::format, stub_format))]
#[cfg_attr(verif_replay, test)]
pub fn c11_whole_data() {
    let x = in_i64::<1>();
    let d_num = Value::Number(Number::from(x));
    let r1 = get_key(&d_num, KeyType::Null);
    let r2 = get_str_key(&d_num, "");
    let r3 = var(&d_num, &Vec::new());
    let ok = |v: &Value| match v { Value::Number(n) => n.as_i64() == Some(x), _ => false };
    assert!(r1.as_ref().map(ok) == Some(true), "C11: null key must return the entire data");
    assert!(r2.as_ref().map(ok) == Some(true), "C11: empty key must return the entire data");
    assert!(r3.as_ref().map(ok).unwrap_or(false), "C11: var without operands must return the entire data");
    let b = in_bool::<2>();
    let d_bool = Value::Bool(b);
    let r4 = get_key(&d_bool, KeyType::Null);
    assert!(match &r4 { Some(Value::Bool(y)) => *y == b, _ => false }, "C11: null key must return the entire data");
    let d_null = Value::Null;
    let r5 = get_str_key(&d_null, "");
    assert!(match &r5 { Some(Value::Null) => true, _ => false }, "C11: empty key must return the entire data");
    std::mem::forget((r1, r2, r3, r4, r5));
    std::mem::forget(d_num);
}

fn alpha(k: u64) -> char {
    match k {
        0 => 'a',
        1 => '.',
        2 => '\\',
        _ => '1',
    }
}

/// reference path splitter from the statement: backslash makes the next character literal, '.' separates,
/// a trailing empty component is dropped
fn ref_split(chars: &[char]) -> Vec<Vec<char>> {
    let mut out: Vec<Vec<char>> = Vec::with_capacity(4);
    let mut cur: Vec<char> = Vec::with_capacity(4);
    let mut esc = false;
    let mut i = 0;
    while i < chars.len() {
        let c = chars[i];
        if esc {
            cur.push(c);
            esc = false;
        } else if c == '\\' {
            esc = true;
        } else if c == '.' {
            out.push(cur);
            cur = Vec::with_capacity(4);
        } else {
            cur.push(c);
        }
        i += 1;
    }
    if cur.len() > 0 {
        out.push(cur);
    }
    out
}

pub fn split_case(n: usize) {
    let ks = [in_below::<1>(4), in_below::<2>(4), in_below::<3>(4)];
    let cs = [alpha(ks[0]), alpha(ks[1]), alpha(ks[2])];
    let mut s = String::with_capacity(8);
    let mut i = 0;
    while i < n {
        s.push(cs[i]);
        i += 1;
    }
    let parts = split_with_escape(&s, '.');
    let exp = ref_split(&cs[..n]);
    vshow!("split({:?}) = {:?}", s, parts);
    assert!(parts.len() == exp.len(), "C11: path split into a different number of components");
    let mut p = 0;
    while p < 3 {
        if p < exp.len() {
            let pb = parts[p].as_bytes();
            assert!(pb.len() == exp[p].len(), "C11: path component has a different length");
            let mut q = 0;
            while q < 3 {
                if q < exp[p].len() {
                    assert!(pb[q] == exp[p][q] as u8, "C11: path component differs");
                }
                q += 1;
            }
        }
        p += 1;
    }
    std::mem::forget(parts);
    std::mem::forget(exp);
    std::mem::forget(s);
}

//@ harness: c11_split_n1 tier=thorough timeout=900 kind=main mem=28 optional=1
//@ encodes: op::data::split_with_escape
//@ bound: path of 1 character over the alphabet {a . \ 1}
#[cfg_attr(kani, kani::proof)]
#[cfg_attr(kani, kani::unwind(6))]
#[cfg_attr(kani, kani::stub(std::fmt::format, stub_format))]
#[cfg_attr(verif_replay, test)]
pub fn c11_split_n1() {
    split_case(1);
}

//@ harness: c11_split_n2 tier=thorough timeout=900 kind=main mem=40 optional=1
//@ encodes: op::data::split_with_escape
//@ bound: path of 2 characters over the alphabet {a . \ 1} (16 paths; covers "a.", ".a", "\.", "\\", "..")
#[cfg_attr(kani, kani::proof)]
#[cfg_attr(kani, kani::unwind(6))]
#[cfg_attr(kani, kani::stub(std::fmt::format, stub_format))]
#[cfg_attr(verif_replay, test)]
pub fn c11_split_n2() {
    split_case(2);
}


/// var(data, [k]) / var(data, [k, d]) on array data with CONCRETE key k (R1) and symbolic payloads
pub fn var_default_case(k: i64, present: bool) {
    let a = in_i64::<1>();
    let data = Value::Array(vec![Value::Null, Value::Number(Number::from(a))]); // index 0 present-but-null, 1 present
    let key = Value::Number(Number::from(k));
    let d = in_i64::<2>();
    let dflt = Value::Number(Number::from(d));
    let r1 = var(&data, &vec![&key]);
    let r2 = var(&data, &vec![&key, &dflt]);
    vshow!("var({}) = {:?}; var({}, {}) = {:?}", k, r1, k, d, r2);
    let is_num = |r: &Result<Value, crate::error::Error>, x: i64| match r { Ok(Value::Number(n)) => n.as_i64() == Some(x), _ => false };
    let is_null = |r: &Result<Value, crate::error::Error>| match r { Ok(Value::Null) => true, _ => false };
    if present {
        if k == 0 || k == -2 {
            assert!(is_null(&r1) && is_null(&r2), "C11: a present null value must win over the default");
        } else {
            assert!(is_num(&r1, a) && is_num(&r2, a), "C11: a present value must be returned unchanged");
        }
    } else {
        assert!(is_null(&r1), "C11: an absent key without default must give null");
        assert!(is_num(&r2, d), "C11: an absent key must give the default");
    }
    std::mem::forget((r1, r2));
    std::mem::forget(data);
}

//@ harness: c11_default_present_front tier=quick timeout=900 kind=main mem=8
//@ encodes: op::data::var, op::data::get_key, op::data::get::<Value>, Parsed::from_value (default operand)
//@ bound: array data [null, i64 a] (a symbolic), default i64 d (symbolic); keys 0 (present, null-valued) and 1: the present value - even null - wins over the default
//@ cuts: maps evaluate
#[cfg_attr(kani, kani::proof)]
#[cfg_attr(kani, kani::unwind(5))]
#[cfg_attr(kani, kani::stub(std::fmt::format, stub_format))]
#[cfg_attr(kani, kani::stub(<serde_json::Value as std::clone::Clone>::clone, value_clone_model))]
#[cfg_attr(verif_replay, test)]
pub fn c11_default_present_front() {
    var_default_case(0, true);
    var_default_case(1, true);
}

//@ harness: c11_default_present_back tier=quick timeout=900 kind=main mem=8
//@ encodes: op::data::var, op::data::get_key, op::data::get::<Value>, Parsed::from_value (default operand)
//@ bound: array data [null, i64 a] (a symbolic), default i64 d (symbolic); keys -1 and -2 (counted from the end): the present value - even null - wins over the default
//@ cuts: maps evaluate
#[cfg_attr(kani, kani::proof)]
#[cfg_attr(kani, kani::unwind(5))]
#[cfg_attr(kani, kani::stub(std::fmt::format, stub_format))]
#[cfg_attr(kani, kani::stub(<serde_json::Value as std::clone::Clone>::clone, value_clone_model))]
#[cfg_attr(verif_replay, test)]
pub fn c11_default_present_back() {
    var_default_case(-1, true);
    var_default_case(-2, true);
}

//@ harness: c11_default_absent_near tier=quick timeout=900 kind=main mem=8
//@ encodes: op::data::var, op::data::get_key, op::data::get::<Value>, Parsed::from_value (default operand)
//@ bound: array data [null, i64 a] (a symbolic), default i64 d (symbolic); keys 2 and -3 (just out of range): default, else null
//@ cuts: maps evaluate
#[cfg_attr(kani, kani::proof)]
#[cfg_attr(kani, kani::unwind(5))]
#[cfg_attr(kani, kani::stub(std::fmt::format, stub_format))]
#[cfg_attr(kani, kani::stub(<serde_json::Value as std::clone::Clone>::clone, value_clone_model))]
#[cfg_attr(verif_replay, test)]
pub fn c11_default_absent_near() {
    var_default_case(2, false);
    var_default_case(-3, false);
}

//@ harness: c11_default_absent_extreme tier=quick timeout=900 kind=main mem=8
//@ encodes: op::data::var, op::data::get_key, op::data::get::<Value>, Parsed::from_value (default operand)
//@ bound: array data [null, i64 a] (a symbolic), default i64 d (symbolic); keys i64::MAX and i64::MIN: default, else null, no panic
//@ cuts: maps evaluate
#[cfg_attr(kani, kani::proof)]
#[cfg_attr(kani, kani::unwind(5))]
#[cfg_attr(kani, kani::stub(std::fmt::format, stub_format))]
#[cfg_attr(kani, kani::stub(<serde_json::Value as std::clone::Clone>::clone, value_clone_model))]
#[cfg_attr(verif_replay, test)]
pub fn c11_default_absent_extreme() {
    var_default_case(i64::MAX, false);
    var_default_case(i64::MIN, false);
}

