//! C06 harnesses - child module of `op` (staged copy only).
#![allow(unused)]
use super::*;
use crate::verif_common::*;
use crate::{vcover, vshow};
use serde_json::{Map, Number, Value};

/// value of the corner-shape family used for "users" harnesses; k concrete per call site (R1)
pub fn corner(k: u8) -> Value {
    match k {
        0 => Value::Null,
        1 => Value::Bool(in_bool::<1>()),
        2 => Value::Number(Number::from(in_i64::<2>())),
        3 => Value::Number(Number::from(in_u64::<3>())),
        4 => {
            let f = in_f64::<4>(); // includes -0.0 and subnormals
            assume(f.is_finite());
            Value::Number(Number::from_f64(f).unwrap())
        }
        5 => Value::String(txt_string(in_txt2::<5, 6, 7>())), // "", "0", any 1-2 chars
        6 => Value::Array(Vec::new()),
        7 => Value::Array(vec![Value::Number(Number::from(0i64))]), // [0]
        8 => Value::Array(vec![Value::Array(Vec::new())]),          // [[]]
        9 => Value::Object(Map::new()),                              // {}
        _ => {
            let mut m = Map::new();
            m.insert(String::from("a"), Value::Bool(false));
            Value::Object(m)
        }
    }
}

fn check_truthy(k: u8) {
    let v = corner(k);
    let got = logic::truthy(&v);
    vshow!("truthy({:?}) = {}", v, got);
    assert!(got == jl_truthy(&v), "C06: truthiness differs from the JsonLogic table");
    let items = vec![&v];
    let bb = OPERATOR_MAP.get("!!").unwrap().execute(&items);
    let b = OPERATOR_MAP.get("!").unwrap().execute(&items);
    match (&bb, &b) {
        (Ok(Value::Bool(x)), Ok(Value::Bool(y))) => {
            assert!(*x == jl_truthy(&v), "C06: !! is not the boolean of the table");
            assert!(*y == !jl_truthy(&v), "C06: ! is not the exact negation of !!");
        }
        _ => assert!(false, "C06: ! / !! did not return booleans"),
    }
    std::mem::forget(v);
}

//@ harness: c06_truthy_scalars tier=quick timeout=600 kind=main
//@ encodes: op::logic::truthy, OPERATOR_MAP["!"], OPERATOR_MAP["!!"]
//@ bound: Null, Bool(any), Number(any i64 | any u64 | any finite f64 incl. -0.0, subnormals)
#[cfg_attr(kani, kani::proof)]
#[cfg_attr(kani, kani::unwind(6))]
#[cfg_attr(kani, kani::stub(std::fmt::format, stub_format))]
#[cfg_attr(verif_replay, test)]
pub fn c06_truthy_scalars() {
    check_truthy(0);
    check_truthy(1);
    check_truthy(2);
    check_truthy(3);
    check_truthy(4);
}

//@ harness: c06_truthy_strings tier=quick timeout=600 kind=main
//@ encodes: op::logic::truthy, OPERATOR_MAP["!"], OPERATOR_MAP["!!"]
//@ bound: strings of 0..2 fully symbolic characters (includes "", "0", "00", " ")
#[cfg_attr(kani, kani::proof)]
#[cfg_attr(kani, kani::unwind(8))]
#[cfg_attr(kani, kani::stub(std::fmt::format, stub_format))]
#[cfg_attr(verif_replay, test)]
pub fn c06_truthy_strings() {
    check_truthy(5);
}

//@ harness: c06_truthy_containers tier=quick timeout=900 kind=main mem=8
//@ encodes: op::logic::truthy, OPERATOR_MAP["!"], OPERATOR_MAP["!!"]
//@ bound: [], [0], [[]], {}, {"a":false}
#[cfg_attr(kani, kani::proof)]
#[cfg_attr(kani, kani::unwind(6))]
#[cfg_attr(kani, kani::stub(std::fmt::format, stub_format))]
#[cfg_attr(verif_replay, test)]
pub fn c06_truthy_containers() {
    check_truthy(6);
    check_truthy(7);
    check_truthy(8);
    check_truthy(9);
    check_truthy(10);
}

// ---- users: the deciding operators flip exactly with the table -----------------------------------

fn num(x: i64) -> Value {
    Value::Number(Number::from(x))
}
fn is_num(r: &Result<Value, crate::error::Error>, x: i64) -> bool {
    match r {
        Ok(Value::Number(n)) => n.as_i64() == Some(x),
        _ => false,
    }
}

fn user_if(k: u8) {
    let v = corner(k);
    let (t, e) = (num(1), num(2));
    let data = Value::Null;
    let args: Vec<&Value> = vec![&v, &t, &e];
    let r = logic::if_(&data, &args);
    vshow!("if({:?}, 1, 2) = {:?}", v, r);
    assert!(is_num(&r, if jl_truthy(&v) { 1 } else { 2 }), "C06: `if` does not follow the truthiness table");
    std::mem::forget(r);
    std::mem::forget(v);
}
fn user_and_or(k: u8) {
    let v = corner(k);
    let t = num(1);
    let data = Value::Null;
    let args: Vec<&Value> = vec![&v, &t];
    let ra = logic::and(&data, &args);
    let ro = logic::or(&data, &args);
    vshow!("and/or({:?}, 1) = {:?} / {:?}", v, ra, ro);
    // and: first falsy operand else last; or: first truthy operand else last
    if jl_truthy(&v) {
        assert!(is_num(&ra, 1), "C06: `and` does not follow the truthiness table");
        assert!(ro.is_ok() && !is_num(&ro, 1) || k == 2 || k == 3 || k == 4, "C06: `or` does not follow the truthiness table");
    } else {
        assert!(ra.is_ok() && !is_num(&ra, 1) || k == 2 || k == 3 || k == 4, "C06: `and` does not follow the truthiness table");
        assert!(is_num(&ro, 1), "C06: `or` does not follow the truthiness table");
    }
    std::mem::forget(ra);
    std::mem::forget(ro);
    std::mem::forget(v);
}

//@ harness: c06_if_null tier=thorough timeout=900 kind=main mem=6
//@ encodes: op::logic::if_, op::logic::truthy, Parsed::from_value, Raw::evaluate
//@ bound: if(v, 1, 2) with literal condition v = null: selects 1 iff v is truthy by the table
//@ cuts: maps evaluate
#[cfg_attr(kani, kani::proof)]
#[cfg_attr(kani, kani::unwind(8))]
#[cfg_attr(kani, kani::stub(std::fmt::format, stub_format))]
#[cfg_attr(verif_replay, test)]
pub fn c06_if_null() {
    user_if(0);
}

//@ harness: c06_if_bool tier=quick timeout=900 kind=main mem=6
//@ encodes: op::logic::if_, op::logic::truthy, Parsed::from_value, Raw::evaluate
//@ bound: if(v, 1, 2) with literal condition v = Bool(any): selects 1 iff v is truthy by the table
//@ cuts: maps evaluate
#[cfg_attr(kani, kani::proof)]
#[cfg_attr(kani, kani::unwind(8))]
#[cfg_attr(kani, kani::stub(std::fmt::format, stub_format))]
#[cfg_attr(verif_replay, test)]
pub fn c06_if_bool() {
    user_if(1);
}

//@ harness: c06_if_i64 tier=thorough timeout=900 kind=main mem=6
//@ encodes: op::logic::if_, op::logic::truthy, Parsed::from_value, Raw::evaluate
//@ bound: if(v, 1, 2) with literal condition v = Number(any i64): selects 1 iff v is truthy by the table
//@ cuts: maps evaluate
#[cfg_attr(kani, kani::proof)]
#[cfg_attr(kani, kani::unwind(8))]
#[cfg_attr(kani, kani::stub(std::fmt::format, stub_format))]
#[cfg_attr(verif_replay, test)]
pub fn c06_if_i64() {
    user_if(2);
}

//@ harness: c06_if_u64 tier=thorough timeout=900 kind=main mem=6
//@ encodes: op::logic::if_, op::logic::truthy, Parsed::from_value, Raw::evaluate
//@ bound: if(v, 1, 2) with literal condition v = Number(any u64): selects 1 iff v is truthy by the table
//@ cuts: maps evaluate
#[cfg_attr(kani, kani::proof)]
#[cfg_attr(kani, kani::unwind(8))]
#[cfg_attr(kani, kani::stub(std::fmt::format, stub_format))]
#[cfg_attr(verif_replay, test)]
pub fn c06_if_u64() {
    user_if(3);
}

//@ harness: c06_if_f64 tier=quick timeout=900 kind=main mem=6
//@ encodes: op::logic::if_, op::logic::truthy, Parsed::from_value, Raw::evaluate
//@ bound: if(v, 1, 2) with literal condition v = Number(any finite f64, incl. -0.0): selects 1 iff v is truthy by the table
//@ cuts: maps evaluate
#[cfg_attr(kani, kani::proof)]
#[cfg_attr(kani, kani::unwind(8))]
#[cfg_attr(kani, kani::stub(std::fmt::format, stub_format))]
#[cfg_attr(verif_replay, test)]
pub fn c06_if_f64() {
    user_if(4);
}

//@ harness: c06_if_str tier=quick timeout=900 kind=main mem=6
//@ encodes: op::logic::if_, op::logic::truthy, Parsed::from_value, Raw::evaluate
//@ bound: if(v, 1, 2) with literal condition v = String(<= 2 symbolic chars, incl. "" and "0"): selects 1 iff v is truthy by the table
//@ cuts: maps evaluate
#[cfg_attr(kani, kani::proof)]
#[cfg_attr(kani, kani::unwind(8))]
#[cfg_attr(kani, kani::stub(std::fmt::format, stub_format))]
#[cfg_attr(verif_replay, test)]
pub fn c06_if_str() {
    user_if(5);
}

//@ harness: c06_if_emptyarr tier=quick timeout=900 kind=main mem=10
//@ encodes: op::logic::if_, op::logic::truthy, Parsed::from_value, Raw::evaluate
//@ bound: if(v, 1, 2) with literal condition v = []: selects 1 iff v is truthy by the table
//@ cuts: maps evaluate
#[cfg_attr(kani, kani::proof)]
#[cfg_attr(kani, kani::unwind(8))]
#[cfg_attr(kani, kani::stub(std::fmt::format, stub_format))]
#[cfg_attr(verif_replay, test)]
pub fn c06_if_emptyarr() {
    user_if(6);
}

//@ harness: c06_if_arr0 tier=thorough timeout=900 kind=main mem=10 optional=1
//@ encodes: op::logic::if_, op::logic::truthy, Parsed::from_value, Raw::evaluate
//@ bound: if(v, 1, 2) with literal condition v = [0]: selects 1 iff v is truthy by the table
//@ cuts: maps evaluate
#[cfg_attr(kani, kani::proof)]
#[cfg_attr(kani, kani::unwind(8))]
#[cfg_attr(kani, kani::stub(std::fmt::format, stub_format))]
#[cfg_attr(verif_replay, test)]
pub fn c06_if_arr0() {
    user_if(7);
}

//@ harness: c06_if_arrarr tier=thorough timeout=900 kind=main mem=10 optional=1
//@ encodes: op::logic::if_, op::logic::truthy, Parsed::from_value, Raw::evaluate
//@ bound: if(v, 1, 2) with literal condition v = [[]]: selects 1 iff v is truthy by the table
//@ cuts: maps evaluate
#[cfg_attr(kani, kani::proof)]
#[cfg_attr(kani, kani::unwind(8))]
#[cfg_attr(kani, kani::stub(std::fmt::format, stub_format))]
#[cfg_attr(verif_replay, test)]
pub fn c06_if_arrarr() {
    user_if(8);
}

//@ harness: c06_if_obj tier=thorough timeout=900 kind=main mem=10 optional=1
//@ encodes: op::logic::if_, op::logic::truthy, Parsed::from_value, Raw::evaluate
//@ bound: if(v, 1, 2) with literal condition v = {}: selects 1 iff v is truthy by the table
//@ cuts: evaluate
#[cfg_attr(kani, kani::proof)]
#[cfg_attr(kani, kani::unwind(8))]
#[cfg_attr(kani, kani::stub(std::fmt::format, stub_format))]
#[cfg_attr(verif_replay, test)]
pub fn c06_if_obj() {
    user_if(9);
}

//@ harness: c06_if_obj1 tier=thorough timeout=900 kind=main mem=10 optional=1
//@ encodes: op::logic::if_, op::logic::truthy, Parsed::from_value, Raw::evaluate
//@ bound: if(v, 1, 2) with literal condition v = {"a":false}: selects 1 iff v is truthy by the table
//@ cuts: evaluate
#[cfg_attr(kani, kani::proof)]
#[cfg_attr(kani, kani::unwind(8))]
#[cfg_attr(kani, kani::stub(std::fmt::format, stub_format))]
#[cfg_attr(verif_replay, test)]
pub fn c06_if_obj1() {
    user_if(10);
}

//@ harness: c06_andor_null tier=thorough timeout=900 kind=main mem=6
//@ encodes: op::logic::and, op::logic::or, op::logic::truthy_from_evaluated, op::logic::truthy
//@ bound: and(v, 1) / or(v, 1) with literal v = null
//@ cuts: maps evaluate
#[cfg_attr(kani, kani::proof)]
#[cfg_attr(kani, kani::unwind(8))]
#[cfg_attr(kani, kani::stub(std::fmt::format, stub_format))]
#[cfg_attr(verif_replay, test)]
pub fn c06_andor_null() {
    user_and_or(0);
}

//@ harness: c06_andor_bool tier=quick timeout=900 kind=main mem=6
//@ encodes: op::logic::and, op::logic::or, op::logic::truthy_from_evaluated, op::logic::truthy
//@ bound: and(v, 1) / or(v, 1) with literal v = Bool(any)
//@ cuts: maps evaluate
#[cfg_attr(kani, kani::proof)]
#[cfg_attr(kani, kani::unwind(8))]
#[cfg_attr(kani, kani::stub(std::fmt::format, stub_format))]
#[cfg_attr(verif_replay, test)]
pub fn c06_andor_bool() {
    user_and_or(1);
}

//@ harness: c06_andor_i64 tier=thorough timeout=900 kind=main mem=6
//@ encodes: op::logic::and, op::logic::or, op::logic::truthy_from_evaluated, op::logic::truthy
//@ bound: and(v, 1) / or(v, 1) with literal v = Number(any i64)
//@ cuts: maps evaluate
#[cfg_attr(kani, kani::proof)]
#[cfg_attr(kani, kani::unwind(8))]
#[cfg_attr(kani, kani::stub(std::fmt::format, stub_format))]
#[cfg_attr(verif_replay, test)]
pub fn c06_andor_i64() {
    user_and_or(2);
}

//@ harness: c06_andor_u64 tier=thorough timeout=900 kind=main mem=6
//@ encodes: op::logic::and, op::logic::or, op::logic::truthy_from_evaluated, op::logic::truthy
//@ bound: and(v, 1) / or(v, 1) with literal v = Number(any u64)
//@ cuts: maps evaluate
#[cfg_attr(kani, kani::proof)]
#[cfg_attr(kani, kani::unwind(8))]
#[cfg_attr(kani, kani::stub(std::fmt::format, stub_format))]
#[cfg_attr(verif_replay, test)]
pub fn c06_andor_u64() {
    user_and_or(3);
}

//@ harness: c06_andor_f64 tier=quick timeout=900 kind=main mem=6
//@ encodes: op::logic::and, op::logic::or, op::logic::truthy_from_evaluated, op::logic::truthy
//@ bound: and(v, 1) / or(v, 1) with literal v = Number(any finite f64, incl. -0.0)
//@ cuts: maps evaluate
#[cfg_attr(kani, kani::proof)]
#[cfg_attr(kani, kani::unwind(8))]
#[cfg_attr(kani, kani::stub(std::fmt::format, stub_format))]
#[cfg_attr(verif_replay, test)]
pub fn c06_andor_f64() {
    user_and_or(4);
}

//@ harness: c06_andor_str tier=quick timeout=900 kind=main mem=6
//@ encodes: op::logic::and, op::logic::or, op::logic::truthy_from_evaluated, op::logic::truthy
//@ bound: and(v, 1) / or(v, 1) with literal v = String(<= 2 symbolic chars, incl. "" and "0")
//@ cuts: maps evaluate
#[cfg_attr(kani, kani::proof)]
#[cfg_attr(kani, kani::unwind(8))]
#[cfg_attr(kani, kani::stub(std::fmt::format, stub_format))]
#[cfg_attr(verif_replay, test)]
pub fn c06_andor_str() {
    user_and_or(5);
}

//@ harness: c06_andor_emptyarr tier=quick timeout=900 kind=main mem=10
//@ encodes: op::logic::and, op::logic::or, op::logic::truthy_from_evaluated, op::logic::truthy
//@ bound: and(v, 1) / or(v, 1) with literal v = []
//@ cuts: maps evaluate
#[cfg_attr(kani, kani::proof)]
#[cfg_attr(kani, kani::unwind(8))]
#[cfg_attr(kani, kani::stub(std::fmt::format, stub_format))]
#[cfg_attr(verif_replay, test)]
pub fn c06_andor_emptyarr() {
    user_and_or(6);
}

//@ harness: c06_andor_arr0 tier=thorough timeout=900 kind=main mem=10 optional=1
//@ encodes: op::logic::and, op::logic::or, op::logic::truthy_from_evaluated, op::logic::truthy
//@ bound: and(v, 1) / or(v, 1) with literal v = [0]
//@ cuts: maps evaluate
#[cfg_attr(kani, kani::proof)]
#[cfg_attr(kani, kani::unwind(8))]
#[cfg_attr(kani, kani::stub(std::fmt::format, stub_format))]
#[cfg_attr(verif_replay, test)]
pub fn c06_andor_arr0() {
    user_and_or(7);
}

//@ harness: c06_andor_arrarr tier=thorough timeout=900 kind=main mem=10 optional=1
//@ encodes: op::logic::and, op::logic::or, op::logic::truthy_from_evaluated, op::logic::truthy
//@ bound: and(v, 1) / or(v, 1) with literal v = [[]]
//@ cuts: maps evaluate
#[cfg_attr(kani, kani::proof)]
#[cfg_attr(kani, kani::unwind(8))]
#[cfg_attr(kani, kani::stub(std::fmt::format, stub_format))]
#[cfg_attr(verif_replay, test)]
pub fn c06_andor_arrarr() {
    user_and_or(8);
}

//@ harness: c06_andor_obj tier=thorough timeout=900 kind=main mem=10 optional=1
//@ encodes: op::logic::and, op::logic::or, op::logic::truthy_from_evaluated, op::logic::truthy
//@ bound: and(v, 1) / or(v, 1) with literal v = {}
//@ cuts: evaluate
#[cfg_attr(kani, kani::proof)]
#[cfg_attr(kani, kani::unwind(8))]
#[cfg_attr(kani, kani::stub(std::fmt::format, stub_format))]
#[cfg_attr(verif_replay, test)]
pub fn c06_andor_obj() {
    user_and_or(9);
}

//@ harness: c06_andor_obj1 tier=thorough timeout=900 kind=main mem=10 optional=1
//@ encodes: op::logic::and, op::logic::or, op::logic::truthy_from_evaluated, op::logic::truthy
//@ bound: and(v, 1) / or(v, 1) with literal v = {"a":false}
//@ cuts: evaluate
#[cfg_attr(kani, kani::proof)]
#[cfg_attr(kani, kani::unwind(8))]
#[cfg_attr(kani, kani::stub(std::fmt::format, stub_format))]
#[cfg_attr(verif_replay, test)]
pub fn c06_andor_obj1() {
    user_and_or(10);
}

/// literal one-element collection, literal predicate v: all = some = truthy(v); none = !some; filter keeps iff truthy(v)
fn user_quant(k: u8, which: u8) {
    let v = corner(k);
    let coll = Value::Array(vec![num(5)]);
    let data = Value::Null;
    let args: Vec<&Value> = vec![&coll, &v];
    let t = jl_truthy(&v);
    let r = match which {
        0 => array::all(&data, &args),
        1 => array::some(&data, &args),
        2 => array::none(&data, &args),
        _ => array::filter(&data, &args),
    };
    vshow!("quantifier {} ([5], {:?}) = {:?}", which, v, r);
    match (&r, which) {
        (Ok(Value::Bool(a)), 0) => assert!(*a == t, "C06: `all` does not follow the truthiness table"),
        (Ok(Value::Bool(a)), 1) => assert!(*a == t, "C06: `some` does not follow the truthiness table"),
        (Ok(Value::Bool(a)), 2) => assert!(*a == !t, "C06: `none` does not follow the truthiness table"),
        (Ok(Value::Array(f)), 3) => assert!(f.len() == if t { 1 } else { 0 }, "C06: `filter` does not follow the truthiness table"),
        _ => assert!(false, "C06: quantifier / filter failed on literal operands"),
    }
    std::mem::forget(r);
    std::mem::forget(v);
    std::mem::forget(coll);
}

//@ harness: c06_some_bool tier=thorough timeout=900 kind=main mem=16 optional=1
//@ encodes: op::array::some, op::logic::truthy_from_evaluated, op::logic::truthy (Parsed::from_value replaced by its recording twin: literals parse to Raw, C02; Value::clone by the bounded model)
//@ bound: collection [5] (literal), literal predicate v = Bool(any): the operator's decision equals the truthiness table
#[cfg_attr(kani, kani::proof)]
#[cfg_attr(kani, kani::unwind(8))]
#[cfg_attr(kani, kani::stub(std::fmt::format, stub_format))]
#[cfg_attr(kani, kani::stub(crate::value::Parsed::from_value, crate::value::verif_c05_value::RecParsed::from_value))]
#[cfg_attr(kani, kani::stub(<serde_json::Value as std::clone::Clone>::clone, value_clone_model))]
#[cfg_attr(verif_replay, test)]
pub fn c06_some_bool() {
    user_quant(1, 1);
}

//@ harness: c06_filter_bool tier=thorough timeout=900 kind=main mem=16 optional=1
//@ encodes: op::array::filter, op::logic::truthy_from_evaluated, op::logic::truthy (Parsed::from_value replaced by its recording twin: literals parse to Raw, C02; Value::clone by the bounded model)
//@ bound: collection [5] (literal), literal predicate v = Bool(any): the operator's decision equals the truthiness table
#[cfg_attr(kani, kani::proof)]
#[cfg_attr(kani, kani::unwind(8))]
#[cfg_attr(kani, kani::stub(std::fmt::format, stub_format))]
#[cfg_attr(kani, kani::stub(crate::value::Parsed::from_value, crate::value::verif_c05_value::RecParsed::from_value))]
#[cfg_attr(kani, kani::stub(<serde_json::Value as std::clone::Clone>::clone, value_clone_model))]
#[cfg_attr(verif_replay, test)]
pub fn c06_filter_bool() {
    user_quant(1, 3);
}

//@ harness: c06_all_f64 tier=thorough timeout=900 kind=main mem=16 optional=1
//@ encodes: op::array::all, op::logic::truthy_from_evaluated, op::logic::truthy (Parsed::from_value replaced by its recording twin: literals parse to Raw, C02; Value::clone by the bounded model)
//@ bound: collection [5] (literal), literal predicate v = Number(any finite f64, incl. -0.0): the operator's decision equals the truthiness table
#[cfg_attr(kani, kani::proof)]
#[cfg_attr(kani, kani::unwind(8))]
#[cfg_attr(kani, kani::stub(std::fmt::format, stub_format))]
#[cfg_attr(kani, kani::stub(crate::value::Parsed::from_value, crate::value::verif_c05_value::RecParsed::from_value))]
#[cfg_attr(kani, kani::stub(<serde_json::Value as std::clone::Clone>::clone, value_clone_model))]
#[cfg_attr(verif_replay, test)]
pub fn c06_all_f64() {
    user_quant(4, 0);
}

//@ harness: c06_filter_f64 tier=thorough timeout=900 kind=main mem=16 optional=1
//@ encodes: op::array::filter, op::logic::truthy_from_evaluated, op::logic::truthy (Parsed::from_value replaced by its recording twin: literals parse to Raw, C02; Value::clone by the bounded model)
//@ bound: collection [5] (literal), literal predicate v = Number(any finite f64, incl. -0.0): the operator's decision equals the truthiness table
#[cfg_attr(kani, kani::proof)]
#[cfg_attr(kani, kani::unwind(8))]
#[cfg_attr(kani, kani::stub(std::fmt::format, stub_format))]
#[cfg_attr(kani, kani::stub(crate::value::Parsed::from_value, crate::value::verif_c05_value::RecParsed::from_value))]
#[cfg_attr(kani, kani::stub(<serde_json::Value as std::clone::Clone>::clone, value_clone_model))]
#[cfg_attr(verif_replay, test)]
pub fn c06_filter_f64() {
    user_quant(4, 3);
}

//@ harness: c06_some_str tier=quick timeout=1200 kind=main mem=16
//@ encodes: op::array::some, op::logic::truthy_from_evaluated, op::logic::truthy (Parsed::from_value replaced by its recording twin: literals parse to Raw, C02; Value::clone by the bounded model)
//@ bound: collection [5] (literal), literal predicate v = String(<= 2 symbolic chars): the operator's decision equals the truthiness table
#[cfg_attr(kani, kani::proof)]
#[cfg_attr(kani, kani::unwind(8))]
#[cfg_attr(kani, kani::stub(std::fmt::format, stub_format))]
#[cfg_attr(kani, kani::stub(crate::value::Parsed::from_value, crate::value::verif_c05_value::RecParsed::from_value))]
#[cfg_attr(kani, kani::stub(<serde_json::Value as std::clone::Clone>::clone, value_clone_model))]
#[cfg_attr(verif_replay, test)]
pub fn c06_some_str() {
    user_quant(5, 1);
}

//@ harness: c06_none_emptyarr tier=thorough timeout=900 kind=main mem=16 optional=1
//@ encodes: op::array::none, op::logic::truthy_from_evaluated, op::logic::truthy (Parsed::from_value replaced by its recording twin: literals parse to Raw, C02; Value::clone by the bounded model)
//@ bound: collection [5] (literal), literal predicate v = []: the operator's decision equals the truthiness table
#[cfg_attr(kani, kani::proof)]
#[cfg_attr(kani, kani::unwind(8))]
#[cfg_attr(kani, kani::stub(std::fmt::format, stub_format))]
#[cfg_attr(kani, kani::stub(crate::value::Parsed::from_value, crate::value::verif_c05_value::RecParsed::from_value))]
#[cfg_attr(kani, kani::stub(<serde_json::Value as std::clone::Clone>::clone, value_clone_model))]
#[cfg_attr(verif_replay, test)]
pub fn c06_none_emptyarr() {
    user_quant(6, 2);
}

//@ harness: c06_all_obj tier=thorough timeout=900 kind=main mem=16 optional=1
//@ encodes: op::array::all, op::logic::truthy_from_evaluated, op::logic::truthy (Parsed::from_value replaced by its recording twin: literals parse to Raw, C02; Value::clone by the bounded model)
//@ bound: collection [5] (literal), literal predicate v = {}: the operator's decision equals the truthiness table
#[cfg_attr(kani, kani::proof)]
#[cfg_attr(kani, kani::unwind(8))]
#[cfg_attr(kani, kani::stub(std::fmt::format, stub_format))]
#[cfg_attr(kani, kani::stub(crate::value::Parsed::from_value, crate::value::verif_c05_value::RecParsed::from_value))]
#[cfg_attr(kani, kani::stub(<serde_json::Value as std::clone::Clone>::clone, value_clone_model))]
#[cfg_attr(verif_replay, test)]
pub fn c06_all_obj() {
    user_quant(9, 0);
}

//@ harness: c06_filter_obj tier=quick timeout=1200 kind=main mem=16
//@ encodes: op::array::filter, op::logic::truthy_from_evaluated, op::logic::truthy (Parsed::from_value replaced by its recording twin: literals parse to Raw, C02; Value::clone by the bounded model)
//@ bound: collection [5] (literal), literal predicate v = {}: the operator's decision equals the truthiness table
#[cfg_attr(kani, kani::proof)]
#[cfg_attr(kani, kani::unwind(8))]
#[cfg_attr(kani, kani::stub(std::fmt::format, stub_format))]
#[cfg_attr(kani, kani::stub(crate::value::Parsed::from_value, crate::value::verif_c05_value::RecParsed::from_value))]
#[cfg_attr(kani, kani::stub(<serde_json::Value as std::clone::Clone>::clone, value_clone_model))]
#[cfg_attr(verif_replay, test)]
pub fn c06_filter_obj() {
    user_quant(9, 3);
}

//@ harness: c06_all_emptyarr tier=quick timeout=1200 kind=main mem=16
//@ encodes: op::array::all, op::logic::truthy_from_evaluated, op::logic::truthy (Parsed::from_value replaced by its recording twin: literals parse to Raw, C02; Value::clone by the bounded model)
//@ bound: collection [5] (literal), literal predicate v = []: `all` must be false (empty array is falsy)
#[cfg_attr(kani, kani::proof)]
#[cfg_attr(kani, kani::unwind(8))]
#[cfg_attr(kani, kani::stub(std::fmt::format, stub_format))]
#[cfg_attr(kani, kani::stub(crate::value::Parsed::from_value, crate::value::verif_c05_value::RecParsed::from_value))]
#[cfg_attr(kani, kani::stub(<serde_json::Value as std::clone::Clone>::clone, value_clone_model))]
#[cfg_attr(verif_replay, test)]
pub fn c06_all_emptyarr() {
    user_quant(6, 0);
}

//@ harness: c06_wit tier=quick timeout=600 kind=witness mem=8
//@ encodes: op::logic::if_
//@ bound: vacuity twin of c06_if_scalars
//@ cuts: maps evaluate
#[cfg_attr(kani, kani::proof)]
#[cfg_attr(kani, kani::unwind(8))]
#[cfg_attr(kani, kani::stub(std::fmt::format, stub_format))]
#[cfg_attr(verif_replay, test)]
pub fn c06_wit() {
    user_if(1);
    assert!(false, "WITNESS");
}
