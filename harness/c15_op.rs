//! C15 harnesses - child module of `op` (staged copy only).
#![allow(unused)]
use super::*;
use crate::verif_common::*;
use crate::{vcover, vshow};
use serde_json::{Map, Number, Value};

fn is_bool(r: &Result<Value, crate::error::Error>, b: bool) -> bool {
    match r {
        Ok(Value::Bool(x)) => *x == b,
        _ => false,
    }
}

/// numeric value of a JSON number as an exact integer or a double (reference for "numerically equal")
fn num_equal(a: &Number, b: &Number) -> bool {
    // integers compared exactly, otherwise as doubles; an integer and a double are equal iff the double is that integer
    let ia = a.as_i64().map(|x| x as i128).or(a.as_u64().map(|x| x as i128));
    let ib = b.as_i64().map(|x| x as i128).or(b.as_u64().map(|x| x as i128));
    match (ia, ib) {
        (Some(x), Some(y)) => x == y,
        (Some(x), None) => {
            let f = b.as_f64().unwrap();
            f.fract() == 0.0 && f >= -9.3e18 && f <= 1.9e19 && (f as i128) == x
        }
        (None, Some(y)) => {
            let f = a.as_f64().unwrap();
            f.fract() == 0.0 && f >= -9.3e18 && f <= 1.9e19 && (f as i128) == y
        }
        (None, None) => a.as_f64() == b.as_f64(),
    }
}

fn num_shape<const A: u32>(k: u8) -> Number {
    match k {
        0 => Number::from(in_i64::<A>()),
        1 => Number::from(in_u64::<A>()),
        _ => {
            let f = in_f64::<A>();
            assume(f.is_finite());
            Number::from_f64(f).unwrap()
        }
    }
}

pub fn in_numbers(kn: u8, kh: u8) {
    let needle_n = num_shape::<1>(kn);
    let hay_n = num_shape::<2>(kh);
    let exp = num_equal(&needle_n, &hay_n);
    let needle = Value::Number(needle_n);
    let hay = Value::Array(vec![Value::Bool(in_bool::<3>()), Value::Number(hay_n)]);
    let items: Vec<&Value> = vec![&needle, &hay];
    let r = array::in_(&items);
    vshow!("in{:?} = {:?} (expected {})", items, r, exp);
    vcover!(exp, "numerically equal member");
    assert!(is_bool(&r, exp), "C15: `in` does not treat numerically equal numbers as the same element (or finds a different one)");
    std::mem::forget(r);
    std::mem::forget(needle);
    std::mem::forget(hay);
}

//@ harness: c15_in_scalars tier=quick timeout=900 kind=main mem=8
//@ encodes: op::array::in_ (array haystack), deep equality of scalars
//@ bound: haystack [null, Bool b, String(1 symbolic char)], needle null / Bool / String(1 symbolic char) / Number: member iff same type and value
#[cfg_attr(kani, kani::proof)]
#[cfg_attr(kani, kani::unwind(8))]
#[cfg_attr(kani, kani::stub(std::fmt::format, stub_format))]
#[cfg_attr(verif_replay, test)]
pub fn c15_in_scalars() {
    let b = in_bool::<1>();
    let c = in_char::<2>();
    let hay = Value::Array(vec![Value::Null, Value::Bool(b), Value::String(str1(c))]);
    let n0 = Value::Null;
    assert!(is_bool(&array::in_(&vec![&n0, &hay]), true), "C15: null is a member of [null, ..]");
    let b2 = in_bool::<3>();
    let n1 = Value::Bool(b2);
    assert!(is_bool(&array::in_(&vec![&n1, &hay]), b2 == b), "C15: boolean membership");
    let c2 = in_char::<4>();
    let n2 = Value::String(str1(c2));
    assert!(is_bool(&array::in_(&vec![&n2, &hay]), c2 == c), "C15: string membership");
    let n3 = Value::Number(Number::from(in_i64::<5>()));
    assert!(is_bool(&array::in_(&vec![&n3, &hay]), false), "C15: a number is not a member of an array without numbers");
    std::mem::forget(hay);
    std::mem::forget(n2);
}

//@ harness: c15_in_conventions tier=quick timeout=900 kind=main mem=8
//@ encodes: op::array::in_ (null / scalar / string haystack conventions)
//@ bound: haystack null => false for any scalar needle; haystack Bool / Number / {} => error; string haystack with a non-string needle (null, Bool, Number, []) => error
#[cfg_attr(kani, kani::proof)]
#[cfg_attr(kani, kani::unwind(8))]
#[cfg_attr(kani, kani::stub(std::fmt::format, stub_format))]
#[cfg_attr(verif_replay, test)]
pub fn c15_in_conventions() {
    let needle = Value::Number(Number::from(in_i64::<1>()));
    let hn = Value::Null;
    assert!(is_bool(&array::in_(&vec![&needle, &hn]), false), "C15: null haystack must give false");
    let hb = Value::Bool(in_bool::<2>());
    assert!(array::in_(&vec![&needle, &hb]).is_err(), "C15: boolean haystack must be an error");
    let hnum = Value::Number(Number::from(in_i64::<3>()));
    assert!(array::in_(&vec![&needle, &hnum]).is_err(), "C15: numeric haystack must be an error");
    let ho = Value::Object(Map::new());
    assert!(array::in_(&vec![&needle, &ho]).is_err(), "C15: object haystack must be an error");
    let hs = Value::String(str1(in_char::<4>()));
    assert!(array::in_(&vec![&needle, &hs]).is_err(), "C15: string haystack with a numeric needle must be an error");
    let nb = Value::Bool(in_bool::<5>());
    assert!(array::in_(&vec![&nb, &hs]).is_err(), "C15: string haystack with a boolean needle must be an error");
    let nn = Value::Null;
    assert!(array::in_(&vec![&nn, &hs]).is_err(), "C15: string haystack with a null needle must be an error");
    std::mem::forget(hs);
}

//@ harness: c15_in_substring tier=thorough timeout=900 kind=main mem=28 optional=1
//@ encodes: op::array::in_ (string haystack), str::contains
//@ bound: needle of 1 symbolic character, haystack of 2 symbolic characters: true iff the needle equals one of them; empty needle => true
#[cfg_attr(kani, kani::proof)]
#[cfg_attr(kani, kani::unwind(12))]
#[cfg_attr(kani, kani::stub(std::fmt::format, stub_format))]
#[cfg_attr(verif_replay, test)]
pub fn c15_in_substring() {
    let n = in_char::<1>();
    let (h0, h1) = (in_char::<2>(), in_char::<3>());
    let needle = Value::String(str1(n));
    let mut hs = String::with_capacity(8);
    hs.push(h0);
    hs.push(h1);
    let hay = Value::String(hs);
    let r = array::in_(&vec![&needle, &hay]);
    vshow!("in({:?}, {:?}) = {:?}", needle, hay, r);
    assert!(is_bool(&r, n == h0 || n == h1), "C15: substring containment differs from the reference");
    let empty = Value::String(String::new());
    assert!(is_bool(&array::in_(&vec![&empty, &hay]), true), "C15: the empty string is contained in every string");
    std::mem::forget(needle);
    std::mem::forget(hay);
}

/// merge: operands of concrete shapes; result length = sum of array lengths + number of non-array operands, order kept
pub fn merge_case(k: u8) {
    let x = in_i64::<1>();
    let y = in_bool::<2>();
    let z = in_i64::<3>();
    let s0 = Value::Number(Number::from(x));
    let a1 = Value::Array(vec![Value::Bool(y), Value::Number(Number::from(z))]);
    let a0 = Value::Array(Vec::new());
    let n = Value::Null;
    let items: Vec<&Value> = match k {
        0 => Vec::new(),
        1 => vec![&s0],
        2 => vec![&a1],
        3 => vec![&s0, &a1],
        4 => vec![&a1, &a0, &n],
        _ => vec![&a1, &s0, &a1],
    };
    let r = array::merge(&items);
    vshow!("merge{:?} = {:?}", items, r);
    let is_x = |v: &Value| match v { Value::Number(q) => q.as_i64() == Some(x), _ => false };
    let is_y = |v: &Value| match v { Value::Bool(q) => *q == y, _ => false };
    let is_z = |v: &Value| match v { Value::Number(q) => q.as_i64() == Some(z), _ => false };
    match &r {
        Ok(Value::Array(out)) => match k {
            0 => assert!(out.len() == 0, "C15: merge of nothing is []"),
            1 => assert!(out.len() == 1 && is_x(&out[0]), "C15: a non-array operand is kept as one element"),
            2 => assert!(out.len() == 2 && is_y(&out[0]) && is_z(&out[1]), "C15: an array operand is spliced in order"),
            3 => assert!(out.len() == 3 && is_x(&out[0]) && is_y(&out[1]) && is_z(&out[2]), "C15: merge order / length"),
            4 => assert!(out.len() == 3 && is_y(&out[0]) && is_z(&out[1]) && matches!(out[2], Value::Null), "C15: merge order / length (empty array, null)"),
            _ => assert!(out.len() == 5 && is_y(&out[0]) && is_z(&out[1]) && is_x(&out[2]) && is_y(&out[3]) && is_z(&out[4]), "C15: merge order / length"),
        },
        _ => assert!(false, "C15: merge did not return an array"),
    }
    std::mem::forget(r);
    std::mem::forget(a1);
}

//@ harness: c15_merge_scalars tier=quick timeout=600 kind=main mem=8
//@ encodes: op::array::merge
//@ bound: merge(x, null, b) with scalars only (i64 x, Bool b symbolic): every non-array operand - null included - is kept as exactly one element, in order
#[cfg_attr(kani, kani::proof)]
#[cfg_attr(kani, kani::unwind(6))]
#[cfg_attr(kani, kani::stub(std::fmt::format, stub_format))]
#[cfg_attr(kani, kani::stub(<serde_json::Value as std::clone::Clone>::clone, value_clone_model))]
#[cfg_attr(verif_replay, test)]
pub fn c15_merge_scalars() {
    let x = in_i64::<1>();
    let b = in_bool::<2>();
    let v0 = Value::Number(Number::from(x));
    let v1 = Value::Null;
    let v2 = Value::Bool(b);
    let r = array::merge(&vec![&v0, &v1, &v2]);
    vshow!("merge({}, null, {}) = {:?}", x, b, r);
    match &r {
        Ok(Value::Array(out)) => {
            assert!(out.len() == 3, "C15: merge dropped or duplicated a non-array operand");
            assert!(match &out[0] { Value::Number(n) => n.as_i64() == Some(x), _ => false }, "C15: merge order");
            assert!(matches!(out[1], Value::Null), "C15: a null operand must be kept as one element");
            assert!(match &out[2] { Value::Bool(y) => *y == b, _ => false }, "C15: merge order");
        }
        _ => assert!(false, "C15: merge did not return an array"),
    }
    let r1 = array::merge(&vec![&v1]);
    assert!(match &r1 { Ok(Value::Array(o)) => o.len() == 1, _ => false }, "C15: merge(null) must be [null]");
    std::mem::forget((r, r1));
}

//@ harness: c15_merge_nested tier=thorough timeout=900 kind=main mem=24 optional=1
//@ encodes: op::array::merge
//@ bound: merge([[x]], y): exactly one level is flattened - the inner array [x] stays one element
#[cfg_attr(kani, kani::proof)]
#[cfg_attr(kani, kani::unwind(6))]
#[cfg_attr(kani, kani::stub(std::fmt::format, stub_format))]
#[cfg_attr(verif_replay, test)]
pub fn c15_merge_nested() {
    let x = in_i64::<1>();
    let inner = Value::Array(vec![Value::Number(Number::from(x))]);
    let outer = Value::Array(vec![inner]);
    let y = Value::Bool(in_bool::<2>());
    let r = array::merge(&vec![&outer, &y]);
    match &r {
        Ok(Value::Array(out)) => {
            assert!(out.len() == 2, "C15: merge must flatten exactly one level");
            assert!(match &out[0] { Value::Array(i) => i.len() == 1, _ => false }, "C15: merge flattened more than one level");
        }
        _ => assert!(false, "C15: merge did not return an array"),
    }
    std::mem::forget(r);
    std::mem::forget(outer);
}

//@ harness: c15_wit tier=quick timeout=600 kind=witness mem=8
//@ encodes: op::array::in_
//@ bound: vacuity twin of c15_in_num_i64_f64
#[cfg_attr(kani, kani::proof)]
#[cfg_attr(kani, kani::unwind(6))]
#[cfg_attr(kani, kani::stub(std::fmt::format, stub_format))]
#[cfg_attr(verif_replay, test)]
pub fn c15_wit() {
    in_numbers(0, 2);
    assert!(false, "WITNESS");
}
