
//@ harness: c09_wit tier=quick timeout=300 kind=witness
//@ encodes: js_op::abstract_lte
//@ bound: vacuity twin (null <= number)
#[cfg_attr(kani, kani::proof)]
#[cfg_attr(kani, kani::unwind(20))]
#[cfg_attr(kani, kani::stub(std::fmt::format, stub_format))]
#[cfg_attr(kani, kani::stub(crate::js_op::str_to_number, s2n_oracle))]
#[cfg_attr(kani, kani::stub(crate::js_op::to_string, to_string_oracle))]
#[cfg_attr(verif_replay, test)]
pub fn c09_wit() {
    let r_or = oracle_setup::<900, 901, 902, 903>();
    let a = Value::Null;
    let b = Value::Number(Number::from(in_i64::<1>()));
    let got = js_op::abstract_lte(&a, &b);
    assume(got);
    std::mem::forget(b);
    assert!(false, "WITNESS");
}

// ---- between: three operands are the conjunction of the two adjacent comparisons
fn between_case(sym: &str, which: u8) {
    let a = Value::Number(Number::from(in_i64::<1>()));
    let fb = in_f64::<2>();
    assume(fb.is_finite());
    let b = Value::Number(Number::from_f64(fb).unwrap());
    let c = Value::Number(Number::from(in_u64::<3>()));
    let (fa, fc) = (ref_num(&a), ref_num(&c));
    let items3 = vec![&a, &b, &c];
    let items2 = vec![&a, &b];
    let r3 = OPERATOR_MAP.get(sym).unwrap().execute(&items3);
    let r2 = OPERATOR_MAP.get(sym).unwrap().execute(&items2);
    let (e2, e3) = match which {
        0 => (fa < fb, fa < fb && fb < fc),
        1 => (fa <= fb, fa <= fb && fb <= fc),
        2 => (fa > fb, fa > fb && fb > fc),
        _ => (fa >= fb, fa >= fb && fb >= fc),
    };
    vshow!("{} {:?} -> {:?} / {:?}", sym, items3, r3, r2);
    match (&r2, &r3) {
        (Ok(Value::Bool(g2)), Ok(Value::Bool(g3))) => {
            assert!(*g2 == e2, "C09: two-operand form differs from the comparison");
            assert!(*g3 == e3, "C09: three-operand form is not the conjunction of the adjacent comparisons");
        }
        _ => assert!(false, "C09: relational operator did not return a boolean"),
    }
    std::mem::forget(a);
    std::mem::forget(b);
    std::mem::forget(c);
}

//@ harness: c09_between_lt_lte tier=quick timeout=600 kind=main
//@ encodes: op::numeric::lt, op::numeric::lte, op::numeric::compare, OPERATOR_MAP["<"], OPERATOR_MAP["<="]
//@ bound: operands (any i64, any finite f64, any u64): 3-operand result == (a op b) && (b op c); 2-operand == a op b
#[cfg_attr(kani, kani::proof)]
#[cfg_attr(kani, kani::unwind(6))]
#[cfg_attr(kani, kani::stub(std::fmt::format, stub_format))]
#[cfg_attr(kani, kani::stub(crate::js_op::str_to_number, s2n_oracle))]
#[cfg_attr(kani, kani::stub(crate::js_op::to_string, to_string_oracle))]
#[cfg_attr(verif_replay, test)]
pub fn c09_between_lt_lte() {
    between_case("<", 0);
    between_case("<=", 1);
}

//@ harness: c09_between_gt_gte tier=quick timeout=600 kind=main
//@ encodes: op::numeric::gt, op::numeric::gte, op::numeric::compare, OPERATOR_MAP[">"], OPERATOR_MAP[">="]
//@ bound: operands (any i64, any finite f64, any u64): 3-operand result == (a op b) && (b op c); 2-operand == a op b
#[cfg_attr(kani, kani::proof)]
#[cfg_attr(kani, kani::unwind(6))]
#[cfg_attr(kani, kani::stub(std::fmt::format, stub_format))]
#[cfg_attr(kani, kani::stub(crate::js_op::str_to_number, s2n_oracle))]
#[cfg_attr(kani, kani::stub(crate::js_op::to_string, to_string_oracle))]
#[cfg_attr(verif_replay, test)]
pub fn c09_between_gt_gte() {
    between_case(">", 2);
    between_case(">=", 3);
}
