//! Shared helpers for the verification harnesses (injected into the *staged copy* of the
//! crate as `crate::verif_common`, never into /repo).
//!
//! Two build modes:
//!   * `cfg(kani)`          – symbolic: `inp::<ID>()` is a fresh nondeterministic u64.
//!   * `cfg(verif_replay)`  – native replay of a solver model: `inp::<ID>()` reads the
//!                            concrete value the solver assigned to input ID from the
//!                            case file named by $VERIF_REPLAY_CASE; every stub is off,
//!                            so the unmodified crate / std / serde_json run.
#![allow(unused)]

use serde_json::{Number, Value};

// ---------------------------------------------------------------------------------
// inputs
// ---------------------------------------------------------------------------------

/// One symbolic 64-bit input, identified by a compile-time ID so that the checker can
/// find its value in CBMC's trace by function name (`…inp::<ID>`), independent of the
/// order in which inputs are drawn and of formula slicing.
#[cfg(kani)]
#[inline(never)]
pub fn inp<const ID: u32>() -> u64 {
    kani::any()
}

#[cfg(verif_replay)]
pub fn inp<const ID: u32>() -> u64 {
    replay::get(ID)
}

#[cfg(verif_replay)]
pub mod replay {
    use std::collections::HashMap;
    use std::sync::OnceLock;
    static CASE: OnceLock<HashMap<u32, u64>> = OnceLock::new();
    /// Case file format: one `ID VALUE` pair per line (decimal u64).
    pub fn get(id: u32) -> u64 {
        let m = CASE.get_or_init(|| {
            let mut m = HashMap::new();
            if let Ok(p) = std::env::var("VERIF_REPLAY_CASE") {
                let txt = std::fs::read_to_string(p).expect("case file");
                for l in txt.lines() {
                    let mut it = l.split_whitespace();
                    if let (Some(a), Some(b)) = (it.next(), it.next()) {
                        if let (Ok(a), Ok(b)) = (a.parse::<u32>(), b.parse::<u64>()) {
                            m.insert(a, b);
                        }
                    }
                }
            }
            m
        });
        *m.get(&id).unwrap_or(&0)
    }
}

pub fn in_bool<const ID: u32>() -> bool {
    inp::<ID>() & 1 == 1
}
pub fn in_u8<const ID: u32>() -> u8 {
    inp::<ID>() as u8
}
pub fn in_i64<const ID: u32>() -> i64 {
    inp::<ID>() as i64
}
pub fn in_u64<const ID: u32>() -> u64 {
    inp::<ID>()
}
pub fn in_usize<const ID: u32>() -> usize {
    inp::<ID>() as usize
}
/// every bit pattern of an f64 (NaNs, infinities, subnormals, -0.0 included)
pub fn in_f64<const ID: u32>() -> f64 {
    f64::from_bits(inp::<ID>())
}
/// a value in 0..n
pub fn in_below<const ID: u32>(n: u64) -> u64 {
    let v = inp::<ID>();
    assume(v < n);
    v
}
/// any Unicode scalar value
pub fn in_char<const ID: u32>() -> char {
    let v = inp::<ID>();
    assume(v <= 0x10FFFF);
    let c = char::from_u32(v as u32);
    assume(c.is_some());
    c.unwrap()
}
/// one representative of each UTF-8 width class: a / é / € / 😀
pub fn class_char(k: u64) -> char {
    match k {
        0 => 'a',
        1 => '\u{e9}',
        2 => '\u{20ac}',
        _ => '\u{1F600}',
    }
}
pub fn in_class_char<const ID: u32>() -> char {
    class_char(in_below::<ID>(4))
}

/// A JSON number of any of serde_json's three representations, every payload:
/// selector (ID) 0 => i64, 1 => u64, 2 => finite f64.   Uses IDs `ID` and `ID+1`.
pub fn in_number<const ID: u32, const ID2: u32>() -> Number {
    let k = in_below::<ID>(3);
    let p = inp::<ID2>();
    if k == 0 {
        Number::from(p as i64)
    } else if k == 1 {
        Number::from(p)
    } else {
        let f = f64::from_bits(p);
        assume(f.is_finite());
        Number::from_f64(f).unwrap()
    }
}

pub fn num_f(n: &Number) -> f64 {
    n.as_f64().unwrap()
}

// ---------------------------------------------------------------------------------
// assume / cover / stubs
// ---------------------------------------------------------------------------------

#[cfg(kani)]
pub fn assume(b: bool) {
    kani::assume(b)
}
#[cfg(verif_replay)]
pub fn assume(b: bool) {
    if !b {
        // the model handed to replay does not satisfy the harness precondition:
        // the replay is inconclusive, not a reproduction
        println!("VERIF-REPLAY-ASSUME-FAILED");
        std::process::exit(78);
    }
}

#[cfg(kani)]
#[macro_export]
macro_rules! vcover {
    ($c:expr, $m:literal) => {
        kani::cover!($c, $m)
    };
}
#[cfg(verif_replay)]
#[macro_export]
macro_rules! vcover {
    ($c:expr, $m:literal) => {
        let _ = $c;
    };
}

/// Print a decoded input / result during native replay (no-op under Kani).
#[cfg(kani)]
#[macro_export]
macro_rules! vshow {
    ($($t:tt)*) => {};
}
#[cfg(verif_replay)]
#[macro_export]
macro_rules! vshow {
    ($($t:tt)*) => {
        println!("VERIF-SHOW {}", format!($($t)*));
    };
}

/// Replacement for `std::fmt::format` (R3): error *messages* are not the subject of any
/// property; Ok/Err is kept.
pub fn stub_format(_args: std::fmt::Arguments<'_>) -> String {
    String::new()
}

/// Opaque `js_op::to_string` (R5): returns an arbitrary short string. Used only in
/// harnesses whose operands are Null/Bool/Number, where the result is provably discarded.
#[cfg(kani)]
pub fn to_string_opaque(_v: &Value) -> String {
    let mut s = String::new();
    if kani::any() {
        s.push('x');
    }
    s
}
#[cfg(verif_replay)]
pub fn to_string_opaque(v: &Value) -> String {
    crate::js_op::to_string(v)
}

/// `js_op::str_to_number` asserted unreachable (R5).
pub fn s2n_unreachable<S: AsRef<str>>(_s: S) -> Option<f64> {
    assert!(false, "str_to_number reached for an operand pair without strings");
    None
}

// ---------------------------------------------------------------------------------
// reference models (written from the property statements / ECMA-262, not from the code)
// ---------------------------------------------------------------------------------

/// JsonLogic truthiness of a scalar mirror value.
#[derive(Clone, Copy)]
pub enum Sc {
    Null,
    Bool(bool),
    Num(f64),
}
pub fn sc_to_num(s: Sc) -> f64 {
    match s {
        Sc::Null => 0.0,
        Sc::Bool(b) => {
            if b {
                1.0
            } else {
                0.0
            }
        }
        Sc::Num(f) => f,
    }
}

/// negative-index rule of `var` / `substr`: Some(position) or None when out of range
pub fn ref_index(len: usize, idx: i64) -> Option<usize> {
    let n = len as i128;
    let i = idx as i128;
    if i >= 0 {
        if i < n {
            Some(i as usize)
        } else {
            None
        }
    } else if -i <= n {
        Some((n + i) as usize)
    } else {
        None
    }
}

/// `substr` over *characters*: returns (start, end) character positions, 0 <= start,
/// end <= n (end may be < start, meaning empty).
pub fn ref_substr_range(n: usize, idx: i64, len: Option<i64>) -> (usize, usize) {
    let n_ = n as i128;
    let i = idx as i128;
    let start: i128 = if i >= 0 {
        if i > n_ {
            n_
        } else {
            i
        }
    } else if -i > n_ {
        0
    } else {
        n_ + i
    };
    let end: i128 = match len {
        None => n_,
        Some(l) => {
            let l = l as i128;
            if l >= 0 {
                if start + l > n_ {
                    n_
                } else {
                    start + l
                }
            } else if -l > n_ {
                0
            } else {
                n_ + l
            }
        }
    };
    (start as usize, end as usize)
}

// ---------------------------------------------------------------------------------
// Oracle stubs for the comparison matrices (C07 / C09): "dispatch modulo conversion"
//   str_to_number(s)  ->  S2N_R   (one symbolic Option<f64>, never Some(NaN)); calls are counted
//   to_string(v)      ->  real text for strings; TS_A / TS_B (symbolic 1-char strings) for the two designated
//                         container operands; "" for scalars (whose text js_op computes eagerly and discards)
// Under native replay no stub is active; operands are then BUILT from the model's oracle values
// (a string whose JS numeric value is exactly R, an array whose text is exactly S), so the model replays faithfully.
// ---------------------------------------------------------------------------------

pub static mut S2N_R: Option<f64> = None;
pub static mut S2N_CALLS: u32 = 0;
pub static mut TS_PTR_A: *const Value = std::ptr::null();
pub static mut TS_PTR_B: *const Value = std::ptr::null();
pub static mut TS_A: char = 'a';
pub static mut TS_B: char = 'a';

pub fn s2n_oracle<S: AsRef<str>>(s: S) -> Option<f64> {
    unsafe {
        S2N_CALLS += 1;
        // the text handed to the conversion must be that of a string-like operand: the marker "x" of a
        // string-with-meaning, a designated container's text, "[object Object]" or "" - never a scalar's text ("#")
        let t = s.as_ref();
        assert!(t != "#", "string-to-number applied to the text of a scalar operand");
        S2N_R
    }
}

pub fn to_string_oracle(v: &Value) -> String {
    unsafe {
        match v {
            Value::String(s) => s.clone(),
            // the text of an object is a constant; its numeric meaning (NaN) is a corpus fact
            Value::Object(_) => String::from("[object Object]"),
            Value::Array(a) if a.len() == 0 => String::new(),
            Value::Array(_) => {
                let mut s = String::with_capacity(4);
                if std::ptr::eq(v, TS_PTR_A) {
                    s.push(TS_A);
                } else if std::ptr::eq(v, TS_PTR_B) {
                    s.push(TS_B);
                } else {
                    s.push('x');
                }
                s
            }
            // scalars: js_op computes this text eagerly and must discard it
            _ => String::from("#"),
        }
    }
}

/// the symbolic numeric meaning of "the" string-like operand of a mixed pair: None (non-numeric) or any non-NaN double
pub fn oracle_setup<const A: u32, const B: u32, const C: u32, const D: u32>() -> Option<f64> {
    let has = in_bool::<A>();
    let r = in_f64::<B>();
    assume(!r.is_nan());
    let ca = in_char::<C>();
    let cb = in_char::<D>();
    // '#' is the marker text of scalars in to_string_oracle
    assume(ca != '#' && cb != '#');
    unsafe {
        S2N_R = if has { Some(r) } else { None };
        S2N_CALLS = 0;
        TS_A = ca;
        TS_B = cb;
        S2N_R
    }
}

/// a JSON string whose JS numeric value is exactly `r` (None: a non-numeric string). Content is irrelevant under Kani.
#[cfg(kani)]
pub fn string_meaning(_r: Option<f64>) -> String {
    String::from("x")
}
#[cfg(verif_replay)]
pub fn string_meaning(r: Option<f64>) -> String {
    match r {
        None => String::from("x"),
        Some(f) if f == f64::INFINITY => String::from("Infinity"),
        Some(f) if f == f64::NEG_INFINITY => String::from("-Infinity"),
        Some(f) => format!("{:?}", f),
    }
}

/// 1-char string
pub fn str1(c: char) -> String {
    let mut s = String::with_capacity(4);
    s.push(c);
    s
}
/// up to two fully symbolic characters: (length, chars); `txt_string` builds the String
#[derive(Clone, Copy)]
pub struct Txt {
    pub n: usize,
    pub c: [char; 2],
}
pub fn in_txt2<const N: u32, const A: u32, const B: u32>() -> Txt {
    let n = in_below::<N>(3) as usize;
    let c0 = if n > 0 { in_char::<A>() } else { 'a' };
    let c1 = if n > 1 { in_char::<B>() } else { 'a' };
    Txt { n, c: [c0, c1] }
}
pub fn txt1(c: char) -> Txt {
    Txt { n: 1, c: [c, 'a'] }
}
pub fn txt0() -> Txt {
    Txt { n: 0, c: ['a', 'a'] }
}
pub fn txt_string(t: Txt) -> String {
    let mut s = String::with_capacity(8);
    if t.n > 0 {
        s.push(t.c[0]);
    }
    if t.n > 1 {
        s.push(t.c[1]);
    }
    s
}
pub fn txt_eq(a: Txt, b: Txt) -> bool {
    a.n == b.n && (a.n < 1 || a.c[0] == b.c[0]) && (a.n < 2 || a.c[1] == b.c[1])
}
/// compare t (<= 2 chars) with the constant text "[object Object]" by code point: -1 (t smaller) or 1; never equal
pub fn txt_cmp_obj(t: Txt) -> i32 {
    let o = ['[', 'o'];
    let mut k = 0;
    while k < 2 {
        if k >= t.n {
            return -1; // t is a proper prefix of the longer text
        }
        if (t.c[k] as u32) < (o[k] as u32) {
            return -1;
        }
        if (t.c[k] as u32) > (o[k] as u32) {
            return 1;
        }
        k += 1;
    }
    -1
}
/// lexicographic comparison by code point (reference): -1 / 0 / 1
pub fn txt_cmp(a: Txt, b: Txt) -> i32 {
    let mut k = 0;
    while k < 2 {
        if k >= a.n && k >= b.n {
            return 0;
        }
        if k >= a.n {
            return -1;
        }
        if k >= b.n {
            return 1;
        }
        if (a.c[k] as u32) < (b.c[k] as u32) {
            return -1;
        }
        if (a.c[k] as u32) > (b.c[k] as u32) {
            return 1;
        }
        k += 1;
    }
    0
}

/// JsonLogic truthiness table, from the statement of C06
pub fn jl_truthy(v: &Value) -> bool {
    match v {
        Value::Null => false,
        Value::Bool(b) => *b,
        Value::Number(n) => match n.as_f64() {
            Some(f) => f != 0.0,
            None => false,
        },
        Value::String(s) => s.len() != 0,
        Value::Array(a) => a.len() != 0,
        Value::Object(_) => true,
    }
}

// ---------------------------------------------------------------------------------
// Bounded model of serde_json's `Value::clone` (a dependency, not the code under test), used where elements of
// unknown variant are read back from the heap: scalars and strings are copied, arrays one level deep; anything
// deeper or any object reaching it fails an assertion (a CHECKED domain restriction, like the R11 cuts).
// ---------------------------------------------------------------------------------
pub fn scalar_clone_model(v: &Value) -> Value {
    match v {
        Value::Null => Value::Null,
        Value::Bool(b) => Value::Bool(*b),
        Value::Number(n) => Value::Number(n.clone()),
        Value::String(s) => Value::String(s.clone()),
        _ => {
            assert!(false, "clone model: value deeper than the harness domain");
            Value::Null
        }
    }
}
pub fn value_clone_model(v: &Value) -> Value {
    match v {
        Value::Array(a) => {
            let mut out = Vec::with_capacity(a.len());
            let mut i = 0;
            while i < a.len() {
                out.push(scalar_clone_model(&a[i]));
                i += 1;
            }
            Value::Array(out)
        }
        Value::Object(_) => {
            assert!(false, "clone model: objects are outside the harness domain");
            Value::Null
        }
        _ => scalar_clone_model(v),
    }
}
