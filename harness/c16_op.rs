//! C16 harnesses - child module of `op` (staged copy only).
#![allow(unused)]
use super::*;
use crate::verif_common::*;
use crate::{vcover, vshow};
use crate::js_op;
use serde_json::{Map, Number, Value};

/// string of exactly n (concrete) characters, each of a symbolic UTF-8 width class (1..4 bytes: a / é / € / 😀)
pub fn class_string(n: usize, cls: &mut [u64; 4]) -> String {
    cls[0] = in_below::<1>(4);
    cls[1] = in_below::<2>(4);
    cls[2] = in_below::<3>(4);
    cls[3] = in_below::<4>(4);
    let mut s = String::with_capacity(16);
    let mut i = 0;
    while i < n {
        s.push(class_char(cls[i]));
        i += 1;
    }
    s
}

pub fn substr_case(n: usize, with_len: bool) {
    let mut cls = [0u64; 4];
    let s = class_string(n, &mut cls);
    let idx = in_i64::<5>();
    let len = in_i64::<6>();
    let vs = Value::String(s);
    let vi = Value::Number(Number::from(idx));
    let vl = Value::Number(Number::from(len));
    let items: Vec<&Value> = if with_len { vec![&vs, &vi, &vl] } else { vec![&vs, &vi] };
    let r = string::substr(&items);
    vshow!("substr{:?} = {:?}", items, r);
    let (st, en) = ref_substr_range(n, idx, if with_len { Some(len) } else { None });
    vcover!(idx < 0, "negative start");
    vcover!(idx == i64::MIN, "extreme start");
    // The result of skip/take is a contiguous run of the input's characters; with widths drawn from {1,2,3,4}
    // bytes the solver is free to pick widths (e.g. 1,2,4) under which every run has a distinct byte length, so
    // comparing the BYTE LENGTH of the result with that of the reference run [st, en) pins the run down.
    // (Comparing contents byte by byte needs > 24 GB in CBMC for a single character - measured.)
    let mut explen = 0usize;
    let mut i = 0;
    while i < n {
        if i >= st && i < en {
            explen += cls[i] as usize + 1;
        }
        i += 1;
    }
    match &r {
        Ok(Value::String(out)) => assert!(out.len() == explen, "C16: substr selects a different run of characters than the reference"),
        _ => assert!(false, "C16: substr failed on (string, integer[, integer])"),
    }
    std::mem::forget(r);
    std::mem::forget(vs);
}

//@ harness: c16_wit tier=quick timeout=600 kind=witness mem=12
//@ encodes: op::string::substr
//@ bound: vacuity twin of c16_substr_n1_2
//@ cuts: strcount
#[cfg_attr(kani, kani::proof)]
#[cfg_attr(kani, kani::unwind(6))]
#[cfg_attr(kani, kani::stub(std::fmt::format, stub_format))]
#[cfg_attr(verif_replay, test)]
pub fn c16_wit() {
    substr_case(1, false);
    assert!(false, "WITNESS");
}

//@ harness: c16_split_law_n1 tier=thorough timeout=900 kind=main mem=24 optional=1
//@ cuts: strcount
//@ encodes: op::string::substr (called twice)
//@ bound: strings of 1 character of symbolic width class, every i64 i >= 0: substr(s,0,i) ++ substr(s,i) == s
#[cfg_attr(kani, kani::proof)]
#[cfg_attr(kani, kani::unwind(14))]
#[cfg_attr(kani, kani::stub(std::fmt::format, stub_format))]
#[cfg_attr(verif_replay, test)]
pub fn c16_split_law_n1() {
    let mut cls = [0u64; 4];
    let s = class_string(1, &mut cls);
    let i = in_i64::<5>();
    assume(i >= 0);
    let vs = Value::String(s);
    let v0 = Value::Number(Number::from(0i64));
    let vi = Value::Number(Number::from(i));
    let head = string::substr(&vec![&vs, &v0, &vi]);
    let tail = string::substr(&vec![&vs, &vi]);
    vshow!("i={} head={:?} tail={:?}", i, head, tail);
    match (&head, &tail, &vs) {
        (Ok(Value::String(h)), Ok(Value::String(t)), Value::String(orig)) => {
            assert!(h.len() + t.len() == orig.len(), "C16: split law broken (lengths)");
            let hb = h.as_bytes();
            let tb = t.as_bytes();
            let ob = orig.as_bytes();
            let mut k = 0;
            while k < 8 {
                if k < ob.len() {
                    let b = if k < hb.len() { hb[k] } else { tb[k - hb.len()] };
                    assert!(b == ob[k], "C16: split law broken (content)");
                }
                k += 1;
            }
        }
        _ => assert!(false, "C16: substr failed"),
    }
    std::mem::forget(head);
    std::mem::forget(tail);
    std::mem::forget(vs);
}

// ---- cat ----------------------------------------------------------------------------------------

/// operand of concrete shape k with its reference JavaScript string form
/// 0 String(1 symbolic char) 1 null 2 Bool 3 small int 4 [] 5 [null] 6 {} 7 [s1, s2] 8 [int]
pub fn cat_operand<const A: u32, const B: u32, const C: u32>(k: u8) -> (Value, String) {
    match k {
        0 => {
            let c = in_char::<A>();
            (Value::String(str1(c)), str1(c))
        }
        1 => (Value::Null, String::from("null")),
        2 => {
            let b = in_bool::<A>();
            (Value::Bool(b), String::from(if b { "true" } else { "false" }))
        }
        3 => {
            let x = in_i64::<A>();
            assume(x >= -99 && x <= 999);
            (Value::Number(Number::from(x)), ref_itoa(x))
        }
        4 => (Value::Array(Vec::new()), String::new()),
        5 => (Value::Array(vec![Value::Null]), String::new()),
        6 => (Value::Object(Map::new()), String::from("[object Object]")),
        7 => {
            let c1 = in_char::<A>();
            let c2 = in_char::<B>();
            let mut e = String::with_capacity(12);
            e.push(c1);
            e.push(',');
            e.push(c2);
            (Value::Array(vec![Value::String(str1(c1)), Value::String(str1(c2))]), e)
        }
        _ => {
            let x = in_i64::<A>();
            assume(x >= -99 && x <= 999);
            (Value::Array(vec![Value::Number(Number::from(x))]), ref_itoa(x))
        }
    }
}

/// decimal text of -99..=999 (reference)
pub fn ref_itoa(x: i64) -> String {
    let mut s = String::with_capacity(8);
    let mut v = x;
    if v < 0 {
        s.push('-');
        v = -v;
    }
    if v >= 100 {
        s.push((b'0' + (v / 100) as u8) as char);
    }
    if v >= 10 {
        s.push((b'0' + ((v / 10) % 10) as u8) as char);
    }
    s.push((b'0' + (v % 10) as u8) as char);
    s
}

pub fn cat2(ka: u8, kb: u8) {
    let (a, ta) = cat_operand::<1, 2, 3>(ka);
    let (b, tb) = cat_operand::<11, 12, 13>(kb);
    let items: Vec<&Value> = vec![&a, &b];
    let r = string::cat(&items);
    vshow!("cat{:?} = {:?}", items, r);
    let mut exp = String::with_capacity(40);
    exp.push_str(&ta);
    exp.push_str(&tb);
    match &r {
        Ok(Value::String(out)) => assert!(out.as_bytes() == exp.as_bytes(), "C16: cat differs from the concatenation of JavaScript string forms"),
        _ => assert!(false, "C16: cat failed"),
    }
    std::mem::forget(r);
    std::mem::forget(a);
    std::mem::forget(b);
}

pub fn cat1(ka: u8) {
    let (a, ta) = cat_operand::<1, 2, 3>(ka);
    let items: Vec<&Value> = vec![&a];
    let r = string::cat(&items);
    let r0 = string::cat(&Vec::new());
    vshow!("cat{:?} = {:?}", items, r);
    match (&r, &r0) {
        (Ok(Value::String(out)), Ok(Value::String(e))) => {
            assert!(out.as_bytes() == ta.as_bytes(), "C16: cat of one operand is not its JavaScript string form");
            assert!(e.len() == 0, "C16: cat of no operands is not the empty string");
        }
        _ => assert!(false, "C16: cat failed"),
    }
    std::mem::forget(r);
    std::mem::forget(a);
}
