//! C02 harnesses - child module of `op` (staged copy only).
#![allow(unused)]
use super::*;
use crate::verif_common::*;
use crate::{vcover, vshow};
use serde_json::{Map, Number, Value};

/// the supported operator names per dispatch table, transcribed from the statement (full JsonLogic set plus `?:`)
pub fn spec_eager(k: &str) -> bool {
    matches!(k, "==" | "!=" | "===" | "!==" | "!" | "!!" | "<" | "<=" | ">" | ">=" | "+" | "-" | "*" | "/" | "%"
        | "max" | "min" | "merge" | "in" | "cat" | "substr" | "log")
}
pub fn spec_data(k: &str) -> bool {
    matches!(k, "var" | "missing" | "missing_some")
}
pub fn spec_lazy(k: &str) -> bool {
    matches!(k, "if" | "?:" | "or" | "and" | "map" | "filter" | "reduce" | "all" | "some" | "none")
}
pub fn spec_any(k: &str) -> bool {
    spec_eager(k) || spec_data(k) || spec_lazy(k)
}

fn sym_key(buf: &mut [u8; 3]) -> usize {
    buf[0] = in_u8::<1>();
    buf[1] = in_u8::<2>();
    buf[2] = in_u8::<3>();
    assume(buf[0] < 128 && buf[1] < 128 && buf[2] < 128);
    in_below::<4>(4) as usize
}

//@ harness: c02_membership_eager tier=quick timeout=900 kind=main mem=8
//@ encodes: OPERATOR_MAP (phf lookup: SipHash + displacement + key comparison)
//@ bound: key = every ASCII string of 0..3 bytes (2,113,665 keys): found iff it is one of the 22 documented eager operator names
#[cfg_attr(kani, kani::proof)]
#[cfg_attr(kani, kani::unwind(5))]
#[cfg_attr(verif_replay, test)]
pub fn c02_membership_eager() {
    let mut b = [0u8; 3];
    let n = sym_key(&mut b);
    let s = std::str::from_utf8(&b[..n]).unwrap();
    vshow!("key {:?}", s);
    assert!(OPERATOR_MAP.get(s).is_some() == spec_eager(s), "C02: operator table recognises a key that is not a documented operator name (or misses one)");
}

//@ harness: c02_membership_lazy_data tier=quick timeout=900 kind=main mem=8
//@ encodes: LAZY_OPERATOR_MAP, DATA_OPERATOR_MAP (phf lookup)
//@ bound: key = every ASCII string of 0..3 bytes: found iff it is a documented lazy / data operator name of that length
#[cfg_attr(kani, kani::proof)]
#[cfg_attr(kani, kani::unwind(5))]
#[cfg_attr(verif_replay, test)]
pub fn c02_membership_lazy_data() {
    let mut b = [0u8; 3];
    let n = sym_key(&mut b);
    let s = std::str::from_utf8(&b[..n]).unwrap();
    vshow!("key {:?}", s);
    assert!(LAZY_OPERATOR_MAP.get(s).is_some() == spec_lazy(s), "C02: lazy operator table recognises an undocumented key (or misses one)");
    assert!(DATA_OPERATOR_MAP.get(s).is_some() == spec_data(s), "C02: data operator table recognises an undocumented key (or misses one)");
}

/// one-edit neighbours of a documented name: substitute / insert / delete one byte at a symbolic position,
/// or flip the ASCII case of one letter; the edited key must not be recognised unless it is itself a documented name
pub fn near_miss(name: &'static str, kind: u8) {
    let nb = name.as_bytes();
    let len = nb.len();
    let pos = in_below::<1>(16) as usize;
    let byte = in_u8::<2>();
    assume(byte < 128);
    let mut buf = [0u8; 16];
    let mut m = 0usize;
    let mut i = 0;
    if kind == 0 {
        // substitution
        assume(pos < len);
        while i < len {
            buf[m] = if i == pos { byte } else { nb[i] };
            m += 1;
            i += 1;
        }
    } else if kind == 1 {
        // insertion (pos == len appends: trailing whitespace, extensions; pos == 0 prefixes)
        assume(pos <= len);
        while i <= len {
            if i == pos {
                buf[m] = byte;
                m += 1;
            }
            if i < len {
                buf[m] = nb[i];
                m += 1;
            }
            i += 1;
        }
    } else if kind == 2 {
        // deletion (prefixes and truncations)
        assume(pos < len);
        while i < len {
            if i != pos {
                buf[m] = nb[i];
                m += 1;
            }
            i += 1;
        }
    } else {
        // case flip
        assume(pos < len);
        while i < len {
            buf[m] = if i == pos { nb[i] ^ 0x20 } else { nb[i] };
            m += 1;
            i += 1;
        }
        assume(nb[pos].is_ascii_alphabetic());
    }
    let s = std::str::from_utf8(&buf[..m]).unwrap();
    vshow!("edited key {:?} (from {:?})", s, name);
    let found = OPERATOR_MAP.get(s).is_some() || LAZY_OPERATOR_MAP.get(s).is_some() || DATA_OPERATOR_MAP.get(s).is_some();
    assert!(found == spec_any(s), "C02: a near miss of an operator name (prefix, case variant, surrounding whitespace, ...) is recognised");
}

/// every non-object literal and every object that is not a single-key operator object parses to Raw and evaluates to itself
pub fn literal_identity(v: &Value) {
    let data = Value::Bool(in_bool::<90>());
    let p = Parsed::from_value(v);
    match &p {
        Ok(Parsed::Raw(_)) => {}
        _ => assert!(false, "C02: a literal was parsed as an operation"),
    }
    let pp = p.unwrap();
    let e = pp.evaluate(&data);
    match &e {
        Ok(Evaluated::Raw(r)) => assert!(std::ptr::eq(*r, v), "C02: a literal does not evaluate to itself"),
        _ => assert!(false, "C02: a literal does not evaluate to itself"),
    }
    std::mem::forget(e);
    std::mem::forget(pp);
}

//@ harness: c02_literal_scalars tier=quick timeout=900 kind=main mem=8
//@ encodes: Parsed::from_value, Operation/LazyOperation/DataOperation::from_value, op::op_from_map, Raw::evaluate
//@ bound: null, Bool(any), Number(any repr/payload), String(<= 2 symbolic chars): parsed as Raw, evaluates to the very same value (pointer identity) for any data
#[cfg_attr(kani, kani::proof)]
#[cfg_attr(kani, kani::unwind(6))]
#[cfg_attr(kani, kani::stub(std::fmt::format, stub_format))]
#[cfg_attr(verif_replay, test)]
pub fn c02_literal_scalars() {
    let v0 = Value::Null;
    literal_identity(&v0);
    let v1 = Value::Bool(in_bool::<1>());
    literal_identity(&v1);
    let v2 = Value::Number(in_number::<2, 3>());
    literal_identity(&v2);
    let v3 = Value::String(txt_string(in_txt2::<4, 5, 6>()));
    literal_identity(&v3);
    std::mem::forget(v2);
    std::mem::forget(v3);
}

//@ harness: c02_literal_arrays tier=quick timeout=900 kind=main mem=8
//@ encodes: Parsed::from_value, op::op_from_map, Raw::evaluate
//@ bound: arrays [], [x], [x, {"var": "a"}] (an operation INSIDE a literal array): parsed as Raw, contents never read, evaluates to the very same value
#[cfg_attr(kani, kani::proof)]
#[cfg_attr(kani, kani::unwind(6))]
#[cfg_attr(kani, kani::stub(std::fmt::format, stub_format))]
#[cfg_attr(verif_replay, test)]
pub fn c02_literal_arrays() {
    let a0 = Value::Array(Vec::new());
    literal_identity(&a0);
    let a1 = Value::Array(vec![Value::Number(Number::from(in_i64::<1>()))]);
    literal_identity(&a1);
    let mut m = Map::new();
    m.insert(String::from("var"), Value::String(String::from("a")));
    let a2 = Value::Array(vec![Value::Bool(in_bool::<2>()), Value::Object(m)]);
    literal_identity(&a2);
    std::mem::forget(a1);
    std::mem::forget(a2);
}

//@ harness: c02_literal_array_emptyobj tier=quick timeout=900 kind=main mem=10
//@ encodes: Parsed::from_value, op::op_from_map, Raw::evaluate
//@ bound: arrays [n, {}] and [{}] (an object element, but not an operation): parsed as Raw, evaluate to the very same value (pointer identity)
//@ cuts: evaluate
#[cfg_attr(kani, kani::proof)]
#[cfg_attr(kani, kani::unwind(6))]
#[cfg_attr(kani, kani::stub(std::fmt::format, stub_format))]
#[cfg_attr(verif_replay, test)]
pub fn c02_literal_array_emptyobj() {
    let a = Value::Array(vec![Value::Number(Number::from(in_i64::<1>())), Value::Object(Map::new())]);
    literal_identity(&a);
    let b = Value::Array(vec![Value::Object(Map::new())]);
    literal_identity(&b);
    std::mem::forget(a);
    std::mem::forget(b);
}

pub fn object_case(k: u8) {
    let mut m = Map::new();
    match k {
        0 => {}
        1 => {
            m.insert(String::from("a"), Value::Number(Number::from(in_i64::<1>())));
        }
        2 => {
            // two keys, one of them an operator name
            m.insert(String::from("var"), Value::String(String::from("a")));
            m.insert(String::from("x"), Value::Null);
        }
        3 => {
            m.insert(String::from("Var"), Value::String(String::from("a")));
        }
        4 => {
            m.insert(String::from(" var"), Value::String(String::from("a")));
        }
        5 => {
            m.insert(String::from("var "), Value::String(String::from("a")));
        }
        _ => {
            m.insert(String::from("i"), Value::Array(Vec::new()));
        }
    }
    let v = Value::Object(m);
    literal_identity(&v);
    std::mem::forget(v);
}

/// a single-key object whose key is NOT an operator name is not dispatched by table `map`
pub fn not_dispatched<T: CommonOperator>(map: &phf::Map<&'static str, T>, key: &'static str) {
    let mut m = Map::new();
    m.insert(String::from(key), Value::Array(vec![Value::Number(Number::from(in_i64::<1>()))]));
    let v = Value::Object(m);
    let r = op_from_map(map, &v);
    match &r {
        Ok(None) => {}
        _ => assert!(false, "C02: a single-key object with an unknown key was treated as an operation (or rejected)"),
    }
    std::mem::forget(r);
    std::mem::forget(v);
}

//@ harness: c02_apply_scalars tier=quick timeout=900 kind=main mem=8
//@ encodes: crate::apply, Parsed::from_value, Raw::evaluate, <Value as From<Evaluated>>::from
//@ bound: the public entry point on scalar literals null / Bool / Number(i64 | u64 | finite f64, every payload): returns a value identical in type, value AND spelling (2.0 stays a float), whatever the data
#[cfg_attr(kani, kani::proof)]
#[cfg_attr(kani, kani::unwind(6))]
#[cfg_attr(kani, kani::stub(std::fmt::format, stub_format))]
#[cfg_attr(verif_replay, test)]
pub fn c02_apply_scalars() {
    let data = Value::Bool(in_bool::<90>());
    let v0 = Value::Null;
    assert!(matches!(crate::apply(&v0, &data), Ok(Value::Null)), "C02: null literal changed");
    let b = in_bool::<1>();
    let v1 = Value::Bool(b);
    assert!(match crate::apply(&v1, &data) { Ok(Value::Bool(x)) => x == b, _ => false }, "C02: boolean literal changed");
    let i = in_i64::<2>();
    let v2 = Value::Number(Number::from(i));
    assert!(match crate::apply(&v2, &data) { Ok(Value::Number(n)) => n.is_i64() && n.as_i64() == Some(i), _ => false }, "C02: integer literal changed");
    let u = in_u64::<3>();
    let v3 = Value::Number(Number::from(u));
    assert!(match crate::apply(&v3, &data) { Ok(Value::Number(n)) => n.as_u64() == Some(u), _ => false }, "C02: integer literal changed");
    let f = in_f64::<4>();
    assume(f.is_finite());
    let v4 = Value::Number(Number::from_f64(f).unwrap());
    let r4 = crate::apply(&v4, &data);
    vshow!("apply({:?}) = {:?}", v4, r4);
    assert!(match &r4 { Ok(Value::Number(n)) => n.is_f64() && n.as_f64().map(f64::to_bits) == Some(f.to_bits()), _ => false }, "C02: float literal re-spelled or changed");
    std::mem::forget(r4);
}

//@ harness: c02_wit tier=quick timeout=600 kind=witness mem=8
//@ encodes: OPERATOR_MAP
//@ bound: vacuity twin of c02_membership_eager
#[cfg_attr(kani, kani::proof)]
#[cfg_attr(kani, kani::unwind(5))]
#[cfg_attr(verif_replay, test)]
pub fn c02_wit() {
    let mut b = [0u8; 3];
    let n = sym_key(&mut b);
    let s = std::str::from_utf8(&b[..n]).unwrap();
    assume(OPERATOR_MAP.get(s).is_some() && n == 3);
    assert!(false, "WITNESS");
}
