//! C05 recording twin of `Parsed::from_value` - child module of `value` (staged copy only).
#![allow(unused)]
use super::*;
use serde_json::Value;

pub static mut LOG: [*const Value; 12] = [std::ptr::null(); 12];
pub static mut LOG_N: usize = 0;

/// Stand-in for `Parsed::from_value` in harnesses whose operands are all LITERALS: a literal parses to `Raw`
/// (decided separately by C02's literal-identity harnesses); additionally the operand's address is logged, so the
/// harness can assert WHICH operands were parsed-and-evaluated, and in which order.
pub struct RecParsed<'a>(std::marker::PhantomData<&'a ()>);
impl<'a> RecParsed<'a> {
    pub fn from_value(value: &'a Value) -> Result<Parsed<'a>, Error> {
        unsafe {
            if LOG_N < 12 {
                LOG[LOG_N] = value as *const Value;
            }
            LOG_N += 1;
        }
        Ok(Parsed::Raw(Raw { value }))
    }
}
pub fn log_reset() {
    unsafe {
        LOG_N = 0;
    }
}
pub fn log_len() -> usize {
    unsafe { LOG_N }
}
pub fn log_at(i: usize) -> *const Value {
    unsafe { LOG[i] }
}
