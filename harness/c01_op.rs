//! C01 harnesses (totality: a value or an error, never a panic) - child module of `op` (staged copy only).
//! Kani compiles with overflow checks on and checks every panic!, unwrap, arithmetic overflow, shift, division by
//! zero and slice index reachable from a harness; the harnesses below therefore mostly just CALL the code.
#![allow(unused)]
use super::*;
use crate::verif_common::*;
use crate::{vcover, vshow};
use crate::js_op;
use crate::value::to_number_value;
use serde_json::{Map, Number, Value};

fn scalar_k<const A: u32, const B: u32>(k: u8) -> Value {
    match k {
        0 => Value::Null,
        1 => Value::Bool(in_bool::<A>()),
        2 => Value::Number(Number::from(in_i64::<A>())),
        3 => Value::Number(Number::from(in_u64::<A>())),
        _ => {
            let f = in_f64::<A>();
            assume(f.is_finite());
            Value::Number(Number::from_f64(f).unwrap())
        }
    }
}

//@ harness: c01_to_number_value tier=quick timeout=300 kind=main
//@ encodes: value::to_number_value
//@ bound: every f64 bit pattern incl. NaN, infinities, subnormals: returns Ok or Err, never panics (casts, fract)
#[cfg_attr(kani, kani::proof)]
#[cfg_attr(kani, kani::stub(std::fmt::format, stub_format))]
#[cfg_attr(verif_replay, test)]
pub fn c01_to_number_value() {
    let x = in_f64::<1>();
    let r = to_number_value(x);
    vshow!("to_number_value({:e}) = {:?}", x, r);
    vcover!(x.is_nan(), "NaN input");
    std::mem::forget(r);
}

pub fn plus_case(ka: u8, kb: u8) {
    let a = scalar_k::<1, 2>(ka);
    let b = scalar_k::<3, 4>(kb);
    let r = js_op::abstract_plus(&a, &b);
    vshow!("abstract_plus({:?}, {:?}) = {:?}", a, b, r);
    std::mem::forget(r);
    std::mem::forget(a);
    std::mem::forget(b);
}

//@ harness: c01_abstract_plus tier=quick timeout=900 kind=main mem=8
//@ encodes: js_op::abstract_plus, js_op::to_primitive_number
//@ bound: public helper on (f64, f64), (i64, u64), (Bool, f64), (null, i64) with every payload: returns a value, never panics (sum overflowing to infinity included)
#[cfg_attr(kani, kani::proof)]
#[cfg_attr(kani, kani::unwind(4))]
#[cfg_attr(kani, kani::stub(std::fmt::format, stub_format))]
#[cfg_attr(kani, kani::stub(crate::js_op::to_string, to_string_opaque))]
#[cfg_attr(verif_replay, test)]
pub fn c01_abstract_plus() {
    plus_case(4, 4);
    plus_case(2, 3);
    plus_case(1, 4);
    plus_case(0, 2);
}

pub fn helpers_case(ka: u8, kb: u8) {
    let a = scalar_k::<1, 2>(ka);
    let b = scalar_k::<3, 4>(kb);
    let _ = js_op::abstract_eq(&a, &b);
    let _ = js_op::abstract_ne(&a, &b);
    let _ = js_op::strict_eq(&a, &b);
    let _ = js_op::strict_ne(&a, &b);
    let _ = js_op::abstract_lt(&a, &b);
    let _ = js_op::abstract_gt(&a, &b);
    let _ = js_op::abstract_lte(&a, &b);
    let _ = js_op::abstract_gte(&a, &b);
    let r1 = js_op::abstract_minus(&a, &b);
    let r2 = js_op::abstract_div(&a, &b);
    let r3 = js_op::abstract_mod(&a, &b);
    let r4 = js_op::to_negative(&a);
    let _ = js_op::to_number(&a);
    // parseFloat-style helpers: on numbers only here (for null / bool they format-and-reparse the operand's text,
    // which is the subject of C10's conversion harnesses)
    let nums = ka >= 2 && kb >= 2;
    if nums {
        let _ = js_op::parse_float(&b);
    }
    let v2: Vec<&Value> = vec![&a, &b];
    let v0: Vec<&Value> = Vec::new();
    let r5 = js_op::abstract_max(&v2);
    let r6 = js_op::abstract_min(&v2);
    let r7 = js_op::abstract_max(&v0);
    let r8 = js_op::abstract_min(&v0);
    let r9 = if nums { js_op::parse_float_add(&v2) } else { Ok(0.0) };
    let r10 = if nums { js_op::parse_float_mul(&v2) } else { Ok(0.0) };
    let r11 = js_op::parse_float_add(&v0);
    let r12 = js_op::parse_float_mul(&v0);
    std::mem::forget((r1, r2, r3, r4, r5, r6, r7, r8, r9, r10, r11, r12));
    std::mem::forget(a);
    std::mem::forget(b);
}

/// every eager operator closure, called with exactly n operands for every n its OWN descriptor accepts (n <= 4):
/// positional operand access must be safe given validated arity
pub fn arity_index_case(sym: &'static str) {
    let op = OPERATOR_MAP.get(sym).unwrap();
    let vals = [Value::Number(Number::from(in_i64::<1>())), Value::Number(Number::from(in_i64::<2>())),
                Value::Number(Number::from(in_i64::<3>())), Value::Number(Number::from(in_i64::<4>()))];
    let mut n = 0;
    while n <= 4 {
        if op.num_params.is_valid_len(&n) {
            let mut items: Vec<&Value> = Vec::with_capacity(4);
            let mut i = 0;
            while i < n {
                items.push(&vals[i]);
                i += 1;
            }
            let r = op.execute(&items);
            std::mem::forget(r);
        }
        n += 1;
    }
    std::mem::forget(vals);
}

pub fn substr_bad_numbers(k: u8) {
    // index / length spelled as u64 beyond i64, or as a fractional / huge double: an error, not a panic
    let s = Value::String(str1(in_class_char::<1>()));
    let bad = match k {
        0 | 2 => Value::Number(Number::from(in_u64::<2>())),
        _ => {
            let f = in_f64::<2>();
            assume(f.is_finite());
            Value::Number(Number::from_f64(f).unwrap())
        }
    };
    let good = Value::Number(Number::from(in_i64::<3>()));
    let r1 = if k == 2 { string::substr(&vec![&s, &good, &bad]) } else { string::substr(&vec![&s, &bad]) };
    vshow!("substr(s, [{:?},] {:?}) = {:?}", good, bad, r1);
    if k == 1 {
        assert!(r1.is_err(), "C01: a float-spelled index must be rejected with an error");
    }
    std::mem::forget(r1);
    std::mem::forget(s);
}

//@ harness: c01_substr_u64 tier=quick timeout=900 kind=main mem=12
//@ encodes: op::string::substr (index / length given as any u64, incl. > i64::MAX)
//@ bound: string of 1 character of symbolic width; index or length any u64: Ok or Err, never a panic
//@ cuts: strcount
#[cfg_attr(kani, kani::proof)]
#[cfg_attr(kani, kani::unwind(6))]
#[cfg_attr(kani, kani::stub(std::fmt::format, stub_format))]
#[cfg_attr(verif_replay, test)]
pub fn c01_substr_u64() {
    substr_bad_numbers(0);
}

//@ harness: c01_substr_u64_len tier=thorough timeout=900 kind=main mem=16 optional=1
//@ encodes: op::string::substr (length given as any u64, incl. > i64::MAX)
//@ bound: string of 1 character of symbolic width; start any i64, length any u64: Ok or Err, never a panic
//@ cuts: strcount
#[cfg_attr(kani, kani::proof)]
#[cfg_attr(kani, kani::unwind(6))]
#[cfg_attr(kani, kani::stub(std::fmt::format, stub_format))]
#[cfg_attr(verif_replay, test)]
pub fn c01_substr_u64_len() {
    substr_bad_numbers(2);
}

//@ harness: c01_substr_f64 tier=quick timeout=900 kind=main mem=12
//@ encodes: op::string::substr (index / length given as any finite f64)
//@ bound: string of 1 character of symbolic width; index or length any finite double: always an error, never a panic
//@ cuts: strcount
#[cfg_attr(kani, kani::proof)]
#[cfg_attr(kani, kani::unwind(6))]
#[cfg_attr(kani, kani::stub(std::fmt::format, stub_format))]
#[cfg_attr(verif_replay, test)]
pub fn c01_substr_f64() {
    substr_bad_numbers(1);
}

//@ harness: c01_wit tier=quick timeout=300 kind=witness
//@ encodes: value::to_number_value
//@ bound: vacuity twin
#[cfg_attr(kani, kani::proof)]
#[cfg_attr(kani, kani::stub(std::fmt::format, stub_format))]
#[cfg_attr(verif_replay, test)]
pub fn c01_wit() {
    let x = in_f64::<1>();
    let r = to_number_value(x);
    assume(r.is_err());
    std::mem::forget(r);
    assert!(false, "WITNESS");
}
