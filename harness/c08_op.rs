//! C08 harnesses - child module of `op` (staged copy only).
#![allow(unused)]
use super::*;
use crate::verif_common::*;
use crate::{vcover, vshow};
use crate::js_op;
use serde_json::{Map, Number, Value};

/// one pair: strict_eq == expected, symmetric, strict_ne == !strict_eq, strict_eq => abstract_eq
fn pair(a: &Value, b: &Value, exp: bool, same_type: bool) {
    let got = js_op::strict_eq(a, b);
    let rev = js_op::strict_eq(b, a);
    let ne = js_op::strict_ne(a, b);
    vshow!("{:?} === {:?} -> {} (expected {})", a, b, got, exp);
    assert!(got == exp, "C08: === differs from strict equality of distinct instances");
    assert!(rev == exp, "C08: === is not symmetric");
    assert!(ne == !exp, "C08: !== is not the negation of ===");
    if same_type {
        // only same-type primitive pairs can be strictly equal; there == must hold too
        let aeq = js_op::abstract_eq(a, b);
        assert!(!got || aeq, "C08: === holds but == does not");
    }
}

fn num_i() -> Value { Value::Number(Number::from(in_i64::<1>())) }
fn num_u() -> Value { Value::Number(Number::from(in_u64::<2>())) }
fn num_f() -> Value {
    let f = in_f64::<3>();
    assume(f.is_finite());
    Value::Number(Number::from_f64(f).unwrap())
}
fn num_i2() -> Value { Value::Number(Number::from(in_i64::<11>())) }
fn num_u2() -> Value { Value::Number(Number::from(in_u64::<12>())) }
fn num_f2() -> Value {
    let f = in_f64::<13>();
    assume(f.is_finite());
    Value::Number(Number::from_f64(f).unwrap())
}
fn nf(v: &Value) -> f64 {
    match v { Value::Number(n) => n.as_f64().unwrap(), _ => 0.0 }
}

//@ harness: c08_num_num tier=quick timeout=600 kind=main
//@ encodes: js_op::strict_eq, js_op::strict_ne, js_op::abstract_eq (Number, Number)
//@ bound: both operands Number, all 9 representation pairs (i64|u64|finite f64)^2, every payload: equal iff equal as doubles (1 === 1.0, 0 === -0)
#[cfg_attr(kani, kani::proof)]
#[cfg_attr(kani, kani::unwind(4))]
#[cfg_attr(kani, kani::stub(std::fmt::format, stub_format))]
#[cfg_attr(verif_replay, test)]
pub fn c08_num_num() {
    let a = [num_i(), num_u(), num_f()];
    let b = [num_i2(), num_u2(), num_f2()];
    let mut i = 0;
    while i < 3 {
        let mut j = 0;
        while j < 3 {
            pair(&a[i], &b[j], nf(&a[i]) == nf(&b[j]), true);
            j += 1;
        }
        i += 1;
    }
    vcover!(nf(&a[0]) == nf(&b[2]) && nf(&a[0]) != 0.0, "integer equals float spelling");
    std::mem::forget(a);
    std::mem::forget(b);
}

//@ harness: c08_prim_mixed tier=quick timeout=600 kind=main
//@ encodes: js_op::strict_eq, js_op::strict_ne
//@ bound: all cross-type pairs among Null, Bool(any), Number(any repr/payload), String(<= 2 symbolic chars): never equal; Null===Null; Bool===Bool iff same
#[cfg_attr(kani, kani::proof)]
#[cfg_attr(kani, kani::unwind(12))]
#[cfg_attr(kani, kani::stub(std::fmt::format, stub_format))]
#[cfg_attr(verif_replay, test)]
pub fn c08_prim_mixed() {
    let n1 = Value::Null;
    let n2 = Value::Null;
    let b1 = Value::Bool(in_bool::<20>());
    let b2 = Value::Bool(in_bool::<21>());
    let num = Value::Number(in_number::<22, 23>());
    let ts = in_txt2::<24, 25, 26>();
    let s = Value::String(txt_string(ts));
    pair(&n1, &n2, true, true);
    let (x, y) = match (&b1, &b2) { (Value::Bool(x), Value::Bool(y)) => (*x, *y), _ => (false, true) };
    pair(&b1, &b2, x == y, true);
    pair(&n1, &b1, false, false);
    pair(&n1, &num, false, false);
    pair(&n1, &s, false, false);
    pair(&b1, &num, false, false);
    pair(&b1, &s, false, false);
    pair(&num, &s, false, false);
    std::mem::forget(num);
    std::mem::forget(s);
}

//@ harness: c08_str_str tier=quick timeout=600 kind=main mem=8
//@ encodes: js_op::strict_eq, js_op::strict_ne, js_op::abstract_eq (String, String)
//@ bound: two strings of <= 2 fully symbolic characters each: equal iff same characters
#[cfg_attr(kani, kani::proof)]
#[cfg_attr(kani, kani::unwind(12))]
#[cfg_attr(kani, kani::stub(std::fmt::format, stub_format))]
#[cfg_attr(verif_replay, test)]
pub fn c08_str_str() {
    let ta = in_txt2::<1, 2, 3>();
    let tb = in_txt2::<11, 12, 13>();
    let a = Value::String(txt_string(ta));
    let b = Value::String(txt_string(tb));
    pair(&a, &b, txt_eq(ta, tb), true);
    vcover!(txt_eq(ta, tb) && ta.n == 2, "equal two-character strings");
    std::mem::forget(a);
    std::mem::forget(b);
}

fn container(k: u64) -> Value {
    match k {
        0 => Value::Array(Vec::new()),
        1 => Value::Array(vec![Value::Number(Number::from(7i64))]),
        2 => Value::Object(Map::new()),
        _ => {
            let mut m = Map::new();
            m.insert(String::from("a"), Value::Null);
            Value::Object(m)
        }
    }
}

//@ harness: c08_containers tier=quick timeout=900 kind=main mem=8
//@ encodes: js_op::strict_eq, js_op::strict_ne
//@ bound: containers [], [7], {}, {"a":null} as DISTINCT instances against each other (incl. structurally identical ones) and against Null/Bool/Number/String: never equal
#[cfg_attr(kani, kani::proof)]
#[cfg_attr(kani, kani::unwind(6))]
#[cfg_attr(kani, kani::stub(std::fmt::format, stub_format))]
#[cfg_attr(verif_replay, test)]
pub fn c08_containers() {
    let c = [container(0), container(1), container(2), container(3)];
    let d = [container(0), container(1), container(2), container(3)];
    let prim = [Value::Null, Value::Bool(in_bool::<1>()), Value::Number(Number::from(in_i64::<2>())), Value::String(String::new())];
    let mut i = 0;
    while i < 4 {
        let mut j = 0;
        while j < 4 {
            pair(&c[i], &d[j], false, false);
            pair(&c[i], &prim[j], false, false);
            j += 1;
        }
        i += 1;
    }
    std::mem::forget(c);
    std::mem::forget(d);
    std::mem::forget(prim);
}

//@ harness: c08_fresh_operands tier=thorough timeout=900 kind=main mem=16 optional=1
//@ encodes: <op::Operation as Parser>::evaluate, OPERATOR_MAP["==="], OPERATOR_MAP["!=="], js_op::strict_eq
//@ bound: Operation{"===" / "!==", [Raw(c), Raw(c)]} with the SAME literal container c = [] twice: operands are materialised per evaluation, so the result is false / true (the pointer shortcut of strict_eq cannot fire)
//@ cuts: evaluate_lazy_data
#[cfg_attr(kani, kani::proof)]
#[cfg_attr(kani, kani::unwind(5))]
#[cfg_attr(kani, kani::stub(std::fmt::format, stub_format))]
#[cfg_attr(verif_replay, test)]
pub fn c08_fresh_operands() {
    let c = Value::Array(Vec::new());
    let data = Value::Null;
    let op_eq = Operation { operator: OPERATOR_MAP.get("===").unwrap(), arguments: vec![Parsed::Raw(crate::value::Raw::from_value(&c).unwrap().unwrap()), Parsed::Raw(crate::value::Raw::from_value(&c).unwrap().unwrap())] };
    let op_ne = Operation { operator: OPERATOR_MAP.get("!==").unwrap(), arguments: vec![Parsed::Raw(crate::value::Raw::from_value(&c).unwrap().unwrap()), Parsed::Raw(crate::value::Raw::from_value(&c).unwrap().unwrap())] };
    let r1 = op_eq.evaluate(&data);
    let r2 = op_ne.evaluate(&data);
    match (&r1, &r2) {
        (Ok(Evaluated::New(Value::Bool(e))), Ok(Evaluated::New(Value::Bool(n)))) => {
            assert!(!*e, "C08: a container obtained by evaluation is strictly equal to another");
            assert!(*n, "C08: !== is not the negation of ===");
        }
        _ => assert!(false, "C08: === did not return a boolean"),
    }
    std::mem::forget(r1);
    std::mem::forget(r2);
    std::mem::forget(op_eq);
    std::mem::forget(op_ne);
}

//@ harness: c08_wit tier=quick timeout=300 kind=witness
//@ encodes: js_op::strict_eq
//@ bound: vacuity twin
#[cfg_attr(kani, kani::proof)]
#[cfg_attr(kani, kani::unwind(4))]
#[cfg_attr(kani, kani::stub(std::fmt::format, stub_format))]
#[cfg_attr(verif_replay, test)]
pub fn c08_wit() {
    let a = num_i();
    let b = num_f2();
    assume(js_op::strict_eq(&a, &b));
    std::mem::forget(a);
    std::mem::forget(b);
    assert!(false, "WITNESS");
}
