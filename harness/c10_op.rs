//! C10 harnesses — child module of `op` (staged copy only).
#![allow(unused)]
use super::*;
use crate::verif_common::*;
use crate::{vcover, vshow};
use crate::js_op;
use crate::value::to_number_value;
use serde_json::{Number, Value};

/// Spelling class demanded by C10: integral and fits 64 bits => JSON integer.
fn ref_is_int64(x: f64) -> bool {
    x.fract() == 0.0 && x >= -9223372036854775808.0 && x < 18446744073709551616.0
}

/// shared assertion: `r` is the JSON number for the exact double `x`, or Err iff x not finite
fn assert_exact(r: &Result<Value, crate::error::Error>, x: f64) {
    match r {
        Ok(Value::Number(n)) => {
            assert!(x.is_finite(), "C10: a number was returned for a non-finite result");
            assert!(n.as_f64() == Some(x), "C10: returned number differs from the exact double");
            if ref_is_int64(x) {
                assert!(n.is_i64() || n.is_u64(), "C10: integral result not spelled as JSON integer");
            } else {
                assert!(n.is_f64(), "C10: non-integral result spelled as integer");
            }
        }
        Ok(_) => assert!(false, "C10: arithmetic returned a non-number"),
        Err(_) => assert!(!x.is_finite(), "C10: error returned for a finite result"),
    }
}

//@ harness: c10_narrowing tier=quick timeout=300 kind=main
//@ encodes: value::to_number_value
//@ bound: every f64 bit pattern (2^64 inputs), no loop
#[cfg_attr(kani, kani::proof)]
#[cfg_attr(kani, kani::stub(std::fmt::format, stub_format))]
#[cfg_attr(verif_replay, test)]
pub fn c10_narrowing() {
    let x = in_f64::<1>();
    let r = to_number_value(x);
    vshow!("to_number_value({:e}) = {:?}", x, r);
    vcover!(x.is_finite() && x.fract() == 0.0 && x.abs() >= 9223372036854775808.0, "integral beyond i64");
    vcover!(r.is_err(), "error path");
    assert_exact(&r, x);
    std::mem::forget(r);
}

//@ harness: c10_narrowing_wit tier=quick timeout=300 kind=witness
//@ encodes: value::to_number_value
//@ bound: vacuity twin of c10_narrowing
#[cfg_attr(kani, kani::proof)]
#[cfg_attr(kani, kani::stub(std::fmt::format, stub_format))]
#[cfg_attr(verif_replay, test)]
pub fn c10_narrowing_wit() {
    let x = in_f64::<1>();
    let r = to_number_value(x);
    std::mem::forget(r);
    assert!(false, "WITNESS");
}


// ---------------------------------------------------------------------------------
// Assume-guarantee decomposition (DESIGN 4/C10):
//   G1  to_number_value == spec for EVERY f64                         (c10_narrowing)
//   G2  js_op::to_number / parse_float == reference conversion, per operand shape   (c10_conv_*)
//   G3  each operator == to_number_value( conv(a) (op) conv(b) ), with the callee conversions replaced by
//       their reference (Kani stubs) and to_number_value by a recorder         (generated c10_<op>_* harnesses)
// Under native replay no stub is active and the same harness asserts the end-to-end statement.
// ---------------------------------------------------------------------------------

static mut TNV_ARG: f64 = 0.0;
static mut TNV_CALLS: u32 = 0;
static mut TNV_OK: bool = false;
static mut TNV_TOKEN: i64 = 0;

/// recorder standing in for `to_number_value` (G3): remembers its argument, returns a symbolic token / error
pub fn tnv_record(x: f64) -> Result<Value, crate::error::Error> {
    unsafe {
        TNV_ARG = x;
        TNV_CALLS += 1;
        if TNV_OK {
            Ok(Value::Number(Number::from(TNV_TOKEN)))
        } else {
            Err(crate::error::Error::UnexpectedError(String::new()))
        }
    }
}
pub fn tnv_setup() {
    unsafe {
        TNV_OK = in_bool::<90>();
        TNV_TOKEN = in_i64::<91>();
        TNV_CALLS = 0;
    }
}

/// Number()-style conversion of the operand shapes used by the generated harnesses (reference, from the statement)
pub fn ref_to_number(v: &Value) -> Option<f64> {
    match v {
        Value::Null => Some(0.0),
        Value::Bool(b) => Some(if *b { 1.0 } else { 0.0 }),
        Value::Number(n) => n.as_f64(),
        Value::Object(_) => None,
        Value::Array(a) if a.len() == 0 => Some(0.0),
        Value::String(s) if s.len() == 0 => Some(0.0),
        _ => {
            assert!(false, "operand outside the harness domain");
            None
        }
    }
}
/// parseFloat()-style conversion of the same shapes: only numbers are numeric ("null", "true", "" and "[object Object]" are NaN)
pub fn ref_parse_float(v: &Value) -> Option<f64> {
    match v {
        Value::Number(n) => n.as_f64(),
        Value::Null | Value::Bool(_) | Value::Object(_) => None,
        Value::Array(a) if a.len() == 0 => None,
        Value::String(s) if s.len() == 0 => None,
        _ => {
            assert!(false, "operand outside the harness domain");
            None
        }
    }
}

/// exp = Some(x): the operator must return to_number_value(x);  None: must be an error (non-numeric operand)
#[cfg(kani)]
pub fn arith_check(r: &Result<Value, crate::error::Error>, exp: Option<f64>) {
    unsafe {
        match exp {
            Some(x) => {
                assert!(TNV_CALLS == 1, "C10: result not narrowed exactly once");
                assert!(
                    TNV_ARG.to_bits() == x.to_bits() || (TNV_ARG.is_nan() && x.is_nan()),
                    "C10: operator computed a different double than the exact IEEE result"
                );
                match r {
                    Ok(Value::Number(n)) => assert!(TNV_OK && n.as_i64() == Some(TNV_TOKEN), "C10: narrowed result altered"),
                    Ok(_) => assert!(false, "C10: narrowed result altered"),
                    Err(_) => assert!(!TNV_OK, "C10: narrowed result replaced by an error"),
                }
            }
            None => {
                assert!(r.is_err(), "C10: a value was returned for a non-numeric operand");
            }
        }
    }
}
#[cfg(verif_replay)]
pub fn arith_check(r: &Result<Value, crate::error::Error>, exp: Option<f64>) {
    match exp {
        Some(x) => assert_exact(r, x),
        None => assert!(r.is_err(), "C10: a value was returned for a non-numeric operand"),
    }
}

pub fn table_op(sym: &str, items: &Vec<&Value>) -> Result<Value, crate::error::Error> {
    OPERATOR_MAP.get(sym).unwrap().execute(items)
}

// ---------------------------------------------------------------------------------
// G2: the conversions, real code against the reference, per operand shape
// ---------------------------------------------------------------------------------

//@ harness: c10_conv_number_scalar tier=quick timeout=300 kind=main
//@ encodes: js_op::to_number, js_op::to_primitive, js_op::to_primitive_number
//@ bound: operand Null | Bool(any) | Number(i64|u64|finite f64, every payload): Number()-style value; to_string opaque, str_to_number asserted unreachable (R5)
#[cfg_attr(kani, kani::proof)]
#[cfg_attr(kani, kani::unwind(4))]
#[cfg_attr(kani, kani::stub(std::fmt::format, stub_format))]
#[cfg_attr(kani, kani::stub(crate::js_op::to_string, to_string_opaque))]
#[cfg_attr(kani, kani::stub(crate::js_op::str_to_number, s2n_unreachable))]
#[cfg_attr(verif_replay, test)]
pub fn c10_conv_number_scalar() {
    let k = in_below::<1>(3);
    let v = if k == 0 { Value::Null } else if k == 1 { Value::Bool(in_bool::<2>()) } else { Value::Number(in_number::<3, 4>()) };
    let got = js_op::to_number(&v);
    vshow!("to_number({:?}) = {:?}", v, got);
    let exp = ref_to_number(&v);
    assert!(exp.is_some());
    assert!(got.map(f64::to_bits) == exp.map(f64::to_bits), "C10: Number()-style conversion of a scalar is wrong");
    std::mem::forget(v);
}

//@ harness: c10_conv_float_number tier=quick timeout=300 kind=main
//@ encodes: js_op::parse_float
//@ bound: operand Number(i64|u64|finite f64, every payload): parseFloat-style value is the number itself
#[cfg_attr(kani, kani::proof)]
#[cfg_attr(kani, kani::unwind(4))]
#[cfg_attr(kani, kani::stub(std::fmt::format, stub_format))]
#[cfg_attr(verif_replay, test)]
pub fn c10_conv_float_number() {
    let v = Value::Number(in_number::<3, 4>());
    let got = js_op::parse_float(&v);
    vshow!("parse_float({:?}) = {:?}", v, got);
    let exp = ref_parse_float(&v);
    assert!(got.map(f64::to_bits) == exp.map(f64::to_bits), "C10: parseFloat-style conversion of a number is wrong");
    std::mem::forget(v);
}

//@ harness: c10_conv_number_emptystr tier=quick timeout=600 kind=main
//@ encodes: js_op::to_number, js_op::to_string, js_op::str_to_number
//@ bound: operand "": Number()-style value 0 (real to_string / str_to_number, no stub)
#[cfg_attr(kani, kani::proof)]
#[cfg_attr(kani, kani::unwind(4))]
#[cfg_attr(kani, kani::stub(std::fmt::format, stub_format))]
#[cfg_attr(verif_replay, test)]
pub fn c10_conv_number_emptystr() {
    let v = Value::String(String::new());
    let got = js_op::to_number(&v);
    assert!(got.map(f64::to_bits) == Some(0.0f64.to_bits()), "C10: \"\" must convert to 0");
    std::mem::forget(v);
}

//@ harness: c10_conv_number_emptyarr tier=thorough timeout=900 kind=main mem=16 optional=1
//@ encodes: js_op::to_number, js_op::to_string, js_op::str_to_number
//@ bound: operand []: Number()-style value 0 (real to_string / str_to_number, no stub)
#[cfg_attr(kani, kani::proof)]
#[cfg_attr(kani, kani::unwind(4))]
#[cfg_attr(kani, kani::stub(std::fmt::format, stub_format))]
#[cfg_attr(verif_replay, test)]
pub fn c10_conv_number_emptyarr() {
    let v = Value::Array(Vec::new());
    let got = js_op::to_number(&v);
    assert!(got.map(f64::to_bits) == Some(0.0f64.to_bits()), "C10: [] must convert to 0");
    std::mem::forget(v);
}

/// Number()-style conversion of containers through their string form: [true] -> "true" -> NaN, [null] -> "" -> 0, {} -> NaN
fn conv_container(k: u8) {
    let v = match k {
        0 => Value::Array(vec![Value::Bool(in_bool::<1>())]),
        1 => Value::Array(vec![Value::Null]),
        2 => Value::Object(serde_json::Map::new()),
        _ => Value::Array(vec![Value::Array(vec![Value::Bool(in_bool::<1>())])]),
    };
    let got = js_op::to_number(&v);
    vshow!("to_number({:?}) = {:?}", v, got);
    match k {
        1 => assert!(got.map(f64::to_bits) == Some(0.0f64.to_bits()), "C10: [null] must convert to 0"),
        _ => assert!(got.is_none(), "C10: [true] / [false] / {} / [[true]] are non-numeric (their text is not a number)"),
    }
    std::mem::forget(v);
}

//@ harness: c10_conv_number_arrbool tier=thorough timeout=900 kind=main mem=20 optional=1
//@ encodes: js_op::to_number, js_op::to_string (array join), js_op::str_to_number
//@ bound: operand [Bool(any)]: Number()-style conversion goes through the text "true"/"false" => non-numeric
#[cfg_attr(kani, kani::proof)]
#[cfg_attr(kani, kani::unwind(20))]
#[cfg_attr(kani, kani::stub(std::fmt::format, stub_format))]
#[cfg_attr(verif_replay, test)]
pub fn c10_conv_number_arrbool() {
    conv_container(0);
}

//@ harness: c10_conv_number_arrnull tier=thorough timeout=900 kind=main mem=20 optional=1
//@ encodes: js_op::to_number, js_op::to_string (array join), js_op::str_to_number
//@ bound: operand [null]: text "" => 0
#[cfg_attr(kani, kani::proof)]
#[cfg_attr(kani, kani::unwind(20))]
#[cfg_attr(kani, kani::stub(std::fmt::format, stub_format))]
#[cfg_attr(verif_replay, test)]
pub fn c10_conv_number_arrnull() {
    conv_container(1);
}

//@ harness: c10_conv_number_obj tier=quick timeout=600 kind=main mem=8
//@ encodes: js_op::to_number, js_op::to_string, js_op::str_to_number
//@ bound: operand {}: text "[object Object]" => non-numeric
#[cfg_attr(kani, kani::proof)]
#[cfg_attr(kani, kani::unwind(20))]
#[cfg_attr(kani, kani::stub(std::fmt::format, stub_format))]
#[cfg_attr(verif_replay, test)]
pub fn c10_conv_number_obj() {
    conv_container(2);
}

//@ harness: c10_conv_number_object tier=thorough timeout=900 kind=main mem=12 optional=1
//@ encodes: js_op::to_number, js_op::to_string, js_op::str_to_number, core dec2flt on the constant "[object Object]"
//@ bound: operand {}: non-numeric (None)
#[cfg_attr(kani, kani::proof)]
#[cfg_attr(kani, kani::unwind(20))]
#[cfg_attr(kani, kani::stub(std::fmt::format, stub_format))]
#[cfg_attr(verif_replay, test)]
pub fn c10_conv_number_object() {
    let v = Value::Object(serde_json::Map::new());
    let got = js_op::to_number(&v);
    assert!(got.is_none(), "C10: an object must be non-numeric");
}
