//! C10 harnesses — child module of `op` (staged copy only).
#![allow(unused)]
use super::*;
use crate::verif_common::*;
use crate::{vcover, vshow};
use crate::js_op;
use crate::value::to_number_value;
use serde_json::{Number, Value};

/// Spelling class demanded by C10: integral and fits 64 bits => JSON integer.
fn ref_is_int64(x: f64) -> bool {
    x.fract() == 0.0 && x >= -9223372036854775808.0 && x < 18446744073709551616.0
}

/// shared assertion: `r` is the JSON number for the exact double `x`, or Err iff x not finite
fn assert_exact(r: &Result<Value, crate::error::Error>, x: f64) {
    match r {
        Ok(Value::Number(n)) => {
            assert!(x.is_finite(), "C10: a number was returned for a non-finite result");
            assert!(n.as_f64() == Some(x), "C10: returned number differs from the exact double");
            if ref_is_int64(x) {
                assert!(n.is_i64() || n.is_u64(), "C10: integral result not spelled as JSON integer");
            } else {
                assert!(n.is_f64(), "C10: non-integral result spelled as integer");
            }
        }
        Ok(_) => assert!(false, "C10: arithmetic returned a non-number"),
        Err(_) => assert!(!x.is_finite(), "C10: error returned for a finite result"),
    }
}

//@ harness: c10_narrowing tier=quick timeout=300 kind=main
//@ encodes: value::to_number_value
//@ bound: every f64 bit pattern (2^64 inputs), no loop
#[cfg_attr(kani, kani::proof)]
#[cfg_attr(kani, kani::stub(std::fmt::format, stub_format))]
#[cfg_attr(verif_replay, test)]
pub fn c10_narrowing() {
    let x = in_f64::<1>();
    let r = to_number_value(x);
    vshow!("to_number_value({:e}) = {:?}", x, r);
    vcover!(x.is_finite() && x.fract() == 0.0 && x.abs() >= 9223372036854775808.0, "integral beyond i64");
    vcover!(r.is_err(), "error path");
    assert_exact(&r, x);
    std::mem::forget(r);
}

//@ harness: c10_narrowing_wit tier=quick timeout=300 kind=witness
//@ encodes: value::to_number_value
//@ bound: vacuity twin of c10_narrowing
#[cfg_attr(kani, kani::proof)]
#[cfg_attr(kani, kani::stub(std::fmt::format, stub_format))]
#[cfg_attr(verif_replay, test)]
pub fn c10_narrowing_wit() {
    let x = in_f64::<1>();
    let r = to_number_value(x);
    std::mem::forget(r);
    assert!(false, "WITNESS");
}
