//! C05 harnesses - child module of `op` (staged copy only).
#![allow(unused)]
use super::*;
use crate::value::verif_c05_value::{log_at, log_len, log_reset};
use crate::verif_common::*;
use crate::{vcover, vshow};
use serde_json::{Map, Number, Value};

/// literal operand i: even positions alternate Bool / i64 (conditions), odd positions i64 (branches)
fn operand(i: usize, payload: u64) -> Value {
    if i % 4 == 0 {
        Value::Bool(payload & 1 == 1)
    } else {
        Value::Number(Number::from(payload as i64))
    }
}
fn same_scalar(r: &Value, v: &Value) -> bool {
    match (r, v) {
        (Value::Bool(a), Value::Bool(b)) => a == b,
        (Value::Number(a), Value::Number(b)) => a.as_i64() == b.as_i64() && a.is_i64() == b.is_i64(),
        (Value::Null, Value::Null) => true,
        _ => false,
    }
}

fn payloads() -> [u64; 8] {
    [in_u64::<1>(), in_u64::<2>(), in_u64::<3>(), in_u64::<4>(), in_u64::<5>(), in_u64::<6>(), in_u64::<7>(), in_u64::<8>()]
}

/// reference for `if`: (index of the returned operand or None for null, evaluation order)
fn ref_if(vals: &[Value], k: usize, order: &mut [usize; 12]) -> (Option<usize>, usize) {
    let mut n = 0;
    let mut i = 0;
    while i < 8 {
        if i >= k {
            return (None, n);
        }
        if i == k - 1 {
            order[n] = i;
            n += 1;
            return (Some(i), n);
        }
        order[n] = i;
        n += 1;
        if jl_truthy(&vals[i]) {
            order[n] = i + 1;
            n += 1;
            return (Some(i + 1), n);
        }
        i += 2;
    }
    (None, n)
}

/// `{"var": true}`: a literal-looking operand that ERRORS when (and only when) it is evaluated
#[cfg(verif_replay)]
fn poison() -> Value {
    let mut m = Map::new();
    m.insert(String::from("var"), Value::Bool(true));
    Value::Object(m)
}
/// Native replay cannot observe "evaluated" on literals, so there the operands that the reference says must NOT
/// be evaluated are replaced by poison: evaluating one of them turns the result into an error (end to end through
/// the real parser and evaluator).
#[cfg(verif_replay)]
fn poisoned<'a>(vals: &'a [Value], pz: &'a Value, k: usize, order: &[usize; 12], n: usize) -> Vec<&'a Value> {
    let mut args: Vec<&Value> = Vec::with_capacity(8);
    let mut i = 0;
    while i < k {
        let mut used = false;
        let mut j = 0;
        while j < n {
            if order[j] == i {
                used = true;
            }
            j += 1;
        }
        args.push(if used { &vals[i] } else { pz });
        i += 1;
    }
    args
}

fn check_log(vals: &[Value], order: &[usize; 12], n: usize) {
    // only meaningful when the recording stub is active (Kani); natively the log stays empty
    #[cfg(kani)]
    {
        assert!(log_len() == n, "C05: an operand that must not be evaluated was evaluated (or a deciding one was skipped)");
        let mut j = 0;
        while j < 12 {
            if j < n {
                assert!(std::ptr::eq(log_at(j), &vals[order[j]]), "C05: operands evaluated in a different order than left to right up to the deciding one");
            }
            j += 1;
        }
    }
}

pub fn if_case(k: usize) {
    let p = payloads();
    let vals: [Value; 8] = [operand(0, p[0]), operand(1, p[1]), operand(2, p[2]), operand(3, p[3]),
                            operand(4, p[4]), operand(5, p[5]), operand(6, p[6]), operand(7, p[7])];
    let mut args: Vec<&Value> = Vec::with_capacity(8);
    let mut i = 0;
    while i < k {
        args.push(&vals[i]);
        i += 1;
    }
    let data = Value::Null;
    let mut order = [0usize; 12];
    let (sel, n) = ref_if(&vals, k, &mut order);
    #[cfg(verif_replay)]
    let pz = poison();
    #[cfg(verif_replay)]
    let args = poisoned(&vals, &pz, k, &order, n);
    log_reset();
    let r = logic::if_(&data, &args);
    vshow!("if{:?} = {:?}", args, r);
    match (&r, sel) {
        (Ok(Value::Null), None) => {}
        (Ok(v), Some(e)) => assert!(same_scalar(v, &vals[e]), "C05: `if` returned a different operand than the branch of the first truthy condition / the trailing else"),
        _ => assert!(false, "C05: `if` result differs from the reference (null expected, or an error was returned)"),
    }
    check_log(&vals, &order, n);
    std::mem::forget(r);
}

pub fn andor_case(k: usize, is_and: bool) {
    let p = payloads();
    let vals: [Value; 8] = [operand(0, p[0]), operand(1, p[1]), operand(2, p[2]), operand(3, p[3]),
                            operand(4, p[4]), operand(5, p[5]), operand(6, p[6]), operand(7, p[7])];
    let mut args: Vec<&Value> = Vec::with_capacity(8);
    let mut i = 0;
    while i < k {
        args.push(&vals[i]);
        i += 1;
    }
    let data = Value::Null;
    // reference: first falsy (and) / truthy (or) operand, else the last; operands after it are not evaluated
    let mut order = [0usize; 12];
    let mut n = 0;
    let mut sel = k - 1;
    let mut j = 0;
    while j < k {
        order[n] = j;
        n += 1;
        if jl_truthy(&vals[j]) != is_and {
            sel = j;
            break;
        }
        j += 1;
    }
    #[cfg(verif_replay)]
    let pz = poison();
    #[cfg(verif_replay)]
    let args = poisoned(&vals, &pz, k, &order, n);
    log_reset();
    let r = if is_and { logic::and(&data, &args) } else { logic::or(&data, &args) };
    vshow!("{}{:?} = {:?}", if is_and { "and" } else { "or" }, args, r);
    match &r {
        Ok(v) => assert!(same_scalar(v, &vals[sel]), "C05: and/or returned a different operand value than the deciding one"),
        _ => assert!(false, "C05: and/or failed on literal operands"),
    }
    check_log(&vals, &order, n);
    std::mem::forget(r);
}

//@ harness: c05_alias tier=quick timeout=300 kind=main
//@ encodes: LAZY_OPERATOR_MAP["if"], LAZY_OPERATOR_MAP["?:"]
//@ bound: concrete: `?:` and `if` dispatch to the same function with the same arity descriptor
#[cfg_attr(kani, kani::proof)]
#[cfg_attr(kani, kani::unwind(6))]
#[cfg_attr(verif_replay, test)]
pub fn c05_alias() {
    let a = LAZY_OPERATOR_MAP.get("if").unwrap();
    let b = LAZY_OPERATOR_MAP.get("?:").unwrap();
    assert!(a.operator as usize == b.operator as usize, "C05: ?: is not an exact alias of if");
    assert!(a.operator as usize == (logic::if_ as LazyOperatorFn) as usize, "C05: if does not dispatch to the if implementation");
    let n = in_usize::<1>();
    assert!(a.num_params.is_valid_len(&n) == b.num_params.is_valid_len(&n), "C05: ?: and if accept different operand counts");
}

//@ harness: c05_wit tier=quick timeout=600 kind=witness
//@ encodes: op::logic::if_
//@ bound: vacuity twin of c05_if_3
//@ cuts: maps
#[cfg_attr(kani, kani::proof)]
#[cfg_attr(kani, kani::unwind(14))]
#[cfg_attr(kani, kani::stub(std::fmt::format, stub_format))]
#[cfg_attr(kani, kani::stub(crate::value::Parsed::from_value, crate::value::verif_c05_value::RecParsed::from_value))]
#[cfg_attr(verif_replay, test)]
pub fn c05_wit() {
    if_case(3);
    assert!(false, "WITNESS");
}
